#!/bin/bash
# usage: tools/runall.sh <tier> [ids...]  — runs the registered command of every check in sequence
tier=${1:-quick}; shift
ids="$@"; [ -z "$ids" ] && ids=$(bin/symgo list)
mkdir -p /tmp/runall
for id in $ids; do
  s=$(date +%s)
  VERIF_SEED=${VERIF_SEED:-1} timeout ${CAP:-100000} bin/symgo check $id --tier $tier > /tmp/runall/$id.$tier.log 2>&1
  rc=$?
  e=$(date +%s)
  echo "$id rc=$rc $((e-s))s $(grep -c VIOLATION /tmp/runall/$id.$tier.log) violations $(grep -c KNOWN-FINDING /tmp/runall/$id.$tier.log) known"
done
