#!/bin/bash
# usage: tools/seedcheck.sh <seed dir name under /tmp/seed> <demo run regex> <check id> [tier]
# 1. demo passes without / fails with the patch (in the scratch worktree)
# 2. the check under /verif is run against /repo with the patch applied, then /repo is restored
id=$1; run=$2; chk=$3; tier=${4:-quick}
wt=/tmp/seed/$id; sd=$wt/SEED
[ -f $sd/patch.diff ] || { echo "no patch in $sd"; exit 2; }
dest=/verif/seeded/$id; mkdir -p $dest; cp $sd/patch.diff $sd/demo_test.go $sd/meta.json $dest/ 2>/dev/null
place=$(head -3 $sd/demo_test.go | grep -o 'internal/[a-z]*' | head -1); place=${place:-.}
cd $wt && git checkout -q -- . && git clean -fdq -e SEED
cp $sd/demo_test.go $wt/$place/zz_seed_demo_test.go
echo "== demo WITHOUT patch"; (cd $wt/$place && timeout 300 go test -vet=off -count=1 -timeout 200s -run "$run" . 2>&1 | tail -3)
git apply $sd/patch.diff || { echo "patch does not apply"; exit 2; }
echo "== demo WITH patch"; (cd $wt/$place && timeout 300 go test -vet=off -count=1 -timeout 200s -run "$run" . 2>&1 | grep -v '^\s' | tail -4)
rm -f $wt/$place/zz_seed_demo_test.go
echo "== build with patch"; (cd $wt && go build ./... && echo build ok)
# check against /repo
cd /verif
git -C /repo apply $sd/patch.diff || { echo "patch does not apply to /repo"; exit 2; }
echo "== check $chk ($tier) with patch applied to /repo"
timeout 3000 bin/symgo check $chk --tier $tier > /tmp/seed/$id.check.log 2>&1; rc=$?
git -C /repo checkout -- .
grep -E '^(VIOLATION|KNOWN|OK|INCONCLUSIVE)' /tmp/seed/$id.check.log | cut -c1-300 | head -8
echo "check exit code: $rc"; git -C /repo status --short | head -3
