#!/bin/bash
# Runs the pinned test suite (BASELINE.json cmd) and reports stable_pass tests that did not pass.
# usage: tools/baseline.sh [module ...]   (default: all modules of /w/out/gomods.txt)
mods="$@"; [ -z "$mods" ] && mods=$(cat /w/out/gomods.txt)
out=$(mktemp /tmp/baseline.XXXXXX.json)
for m in $mods; do MF=$(cd ${BASE_REPO:-/repo}/$m && . /w/out/goenv.sh && gomodflag); (cd ${BASE_REPO:-/repo}/$m && go test $MF -json -vet=off -count=1 -timeout 25m ./... ); done > $out 2>/dev/null
python3 - "$out" $mods <<'P'
import json,sys
res={}
for l in open(sys.argv[1]):
    try: e=json.loads(l)
    except: continue
    if e.get('Test') and e.get('Action') in('pass','fail','skip'):
        res[e['Package']+'::'+e['Test']]=e['Action']
b=json.load(open('/root/.vp/BASELINE.json'))
mods=sys.argv[2:]
def inmods(t):
    pkg=t.split('::')[0]
    rel=pkg[len('github.com/redis/rueidis'):].lstrip('/')
    for m in mods:
        m=m.lstrip('./')
        if m=='' :
            if rel=='' or rel.startswith('internal'): return True
        elif rel==m or rel.startswith(m+'/'): return True
    return False
bad=[t for t in b['stable_pass'] if inmods(t) and res.get(t)!='pass']
print('stable_pass in scope:',sum(1 for t in b['stable_pass'] if inmods(t)),'not passing:',len(bad))
for t in bad[:40]: print('  ',t,res.get(t))
sys.exit(1 if bad else 0)
P
rc=$?; rm -f $out; exit $rc
