#!/bin/bash
# usage: tools/seedcheck2.sh <ID> <package dir rel. to module root, e.g. rueidislimiter> <demo run regex | -> <check id> [tier] [phase: demo|check|all]
# worktree: /tmp/seedwt_<ID>, deliverables in its SEED/ dir
id=$1; place=$2; run=$3; chk=$4; tier=${5:-quick}; phase=${6:-all}
wt=/tmp/seedwt_$id; sd=$wt/SEED
[ -f $sd/patch.diff ] || { echo "no patch in $sd"; exit 2; }
dest=/verif/seeded/${DEST:-$id}; mkdir -p $dest; cp $sd/patch.diff $sd/meta.json $dest/ 2>/dev/null; cp $sd/demo_test.go $dest/ 2>/dev/null; cp $sd/demo.md $dest/ 2>/dev/null
export GOFLAGS=-mod=mod GOPROXY=off
if [ "$phase" != check ] && [ "$run" != "-" ]; then
  cd $wt && git checkout -q -- . && git clean -fdq -e SEED
  cp $sd/demo_test.go $wt/$place/zz_seed_demo_test.go
  echo "== demo WITHOUT patch"; (cd $wt/$place && timeout 600 go test -vet=off -count=1 -timeout 300s -run "$run" . 2>&1 | tail -3)
  git apply $sd/patch.diff || { echo "patch does not apply"; exit 2; }
  echo "== demo WITH patch"; (cd $wt/$place && timeout 600 go test -vet=off -count=1 -timeout 300s -run "$run" . 2>&1 | grep -v '^\s' | tail -4)
  rm -f $wt/$place/zz_seed_demo_test.go
  echo "== build with patch"; (cd $wt/$place && go build ./... && echo build ok)
fi
if [ "$phase" != demo ]; then
  cd /verif
  git -C /repo apply $sd/patch.diff || { echo "patch does not apply to /repo"; exit 2; }
  echo "== check $chk ($tier) with patch applied to /repo"
  timeout 3000 bin/symgo check $chk --tier $tier > /tmp/seed/$id.check.log 2>&1; rc=$?
  git -C /repo checkout -- .
  grep -E '^(VIOLATION|KNOWN|OK|INCONCLUSIVE)' /tmp/seed/$id.check.log | cut -c1-300 | head -8
  echo "check exit code: $rc"; git -C /repo status --short | head -3
fi
