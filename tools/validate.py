#!/opt/veriftools/pyvenv/bin/python
import json,jsonschema,glob,sys
m=json.load(open('/verif/MANIFEST.json'));s=json.load(open('/root/.vp/MANIFEST.schema.json'));jsonschema.validate(m,s)
print('manifest ok',[c['property_id'] for c in m['checks']], m['hooks']['source_commits'])
es=json.load(open('/root/.vp/EVIDENCE.schema.json'))
for f in sorted(glob.glob('/verif/evidence/*.json')):
    jsonschema.validate(json.load(open(f)),es)
print('evidence ok', len(glob.glob('/verif/evidence/*.json')))
