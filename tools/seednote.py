#!/usr/bin/env python3
# usage: seednote.py <seed id> <caught_by check ids comma> <initially caught? yes/no> <note>
import json,sys,os
sid,caught,initial,note=sys.argv[1:5]
d='/verif/seeded/'+sid
m=json.load(open(d+'/meta.json')) if os.path.exists(d+'/meta.json') else {}
m['verification']={'confirmed_by_main_session':'demo passes without and fails with patch.diff in a scratch worktree; module builds with the patch; agent-reported suite comparison shows no additional failing test',
 'caught_by_checks':[c for c in caught.split(',') if c],'caught_before_strengthening':initial=='yes','note':note}
json.dump(m,open(d+'/meta.json','w'),indent=1)
print(sid,'->',m['verification']['caught_by_checks'])
