#!/usr/bin/env python3
import json,sys
ids=set(sys.argv[1:])
for l in open('/verif/properties.jsonl'):
    p=json.loads(l)
    if not ids or p['id'] in ids:
        print(p['id'],'|',p['title']);print('  S:',p['statement']);print('  Q:',p['quantifier']['over'],p['quantifier']['text']);print('  A:',p['anchors']['files'],[m['name']+'@'+m['where'] for m in p['anchors']['mechanism']], 'hook:',p['anchors'].get('hook_needed'))
