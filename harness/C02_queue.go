package rueidis

import (
	"context"
	"strconv"

	"github.com/redis/rueidis/internal/cmds"
)

// C02: the pipeline queue hands each command off exactly once in FIFO order.
//
// P putters enqueue K commands each with the real PutOne/PutMulti and wait on the returned
// channel; one writer goroutine and one reader goroutine drive NextWriteCmd/WaitForWrite and
// NextResultCh/FinishResult in exactly the order _backgroundWrite/_backgroundRead do (the
// reader asks for a result slot only after the writer has handed that command to the wire).
// The schedule is explored by the engine; for the ring the start index is an arbitrary uint32.

func verifCmdID(c Completed) int {
	n, _ := strconv.Atoi(c.Commands()[1])
	return n
}

func verifIDCmd(id int) Completed {
	return cmds.NewCompleted([]string{"ID", strconv.Itoa(id)})
}

func verifQueueRun(q queue) {
	P := verifParam("putters", 2)
	K := verifParam("puts", 1)
	total := P * K
	var written []int // ids in the order the writer took them (order on the wire)
	handed := make([]int, total+200)
	wire := make(chan int, total) // writer -> reader: "the reply to this command arrived"
	for p := 0; p < P; p++ {
		p := p
		verifGo("putter"+strconv.Itoa(p), func() {
			for k := 0; k < K; k++ {
				id := p*K + k
				var ch chan RedisResult
				if verifParam("multi", 0) != 0 && k%2 == 1 {
					ch, _ = q.PutMulti(context.Background(), []Completed{verifIDCmd(id), verifIDCmd(id + 100)}, make([]RedisResult, 2))
				} else {
					ch, _ = q.PutOne(context.Background(), verifIDCmd(id))
				}
				res := <-ch
				got, _ := res.val.AsInt64()
				verifAssert(int(got) == id, "the reply slot is completed for exactly the caller that enqueued the command")
			}
		})
	}
	verifGo("writer", func() {
		verifDaemon()
		for n := 0; n < total; n++ {
			one, multi, ch := q.NextWriteCmd()
			if ch == nil {
				one, multi, ch = q.WaitForWrite()
			}
			id := 0
			if multi != nil {
				id = verifCmdID(multi[0])
			} else {
				id = verifCmdID(one)
			}
			handed[id]++
			verifAssert(handed[id] == 1, "each command is handed to the writer exactly once")
			written = append(written, id)
			wire <- id
		}
		one, multi, ch := q.NextWriteCmd()
		verifAssert(ch == nil && multi == nil && one.IsEmpty(), "nothing is handed to the writer that was not enqueued")
	})
	verifGo("reader", func() {
		verifDaemon()
		for n := 0; n < total; n++ {
			id := <-wire
			one, multi, ch, resps := q.NextResultCh()
			verifAssert(ch != nil, "the result slot of a written command is available to the reader")
			got := 0
			if multi != nil {
				got = verifCmdID(multi[0])
				verifAssert(len(resps) == 2, "a batch carries its own result buffer")
			} else {
				got = verifCmdID(one)
			}
			verifAssert(got == id, "result slots come in the order the commands reached the wire")
			ch <- RedisResult{val: RedisMessage{typ: typeInteger, intlen: int64(got)}}
			q.FinishResult()
		}
		verifReach("drained")
	})
	verifJoin()
	verifAssert(len(written) == total, "every enqueued command reached the writer")
	verifReach("done")
}

func VerifC02_ring() {
	r := newRing(verifParam("factor", 1))
	// start index: every slot phase, far from and right before the 2^32 wrap-around of the
	// counters (VerifC02_index shows that the slot sequence depends on nothing else)
	size := uint32(len(r.store))
	s0 := uint32(verifChoose(int(size)))
	if verifChoose(2) == 1 {
		s0 = 0 - size + s0 // 2^32 - size + phase
	}
	r.write, r.read1, r.read2 = s0, s0, s0
	verifQueueRun(r)
}

func VerifC02_flow() {
	verifQueueRun(newFlowBuffer(verifParam("factor", 1)))
}

// VerifC02_index (solver lemma): for ANY uint32 start index s0 the slot visited at step k is
// ((s0 & mask) + k) & mask, also across the 2^32 wrap-around of the counter, so the runs above
// (all phases, both sides of the wrap) stand for every start index.
func VerifC02_index() {
	s0 := verifNondetUint32()
	k := verifNondetUint32()
	for _, mask := range []uint32{1, 3, 7, 1023} {
		verifAssert((s0+k)&mask == ((s0&mask)+k)&mask, "slot index depends only on the phase")
	}
	verifReach("lemma")
}
