package rueidis

import (
	"errors"
	"net"
	"time"
)

// C44: ParseURL maps every supported URL component to its own option.
//
// The URL text is assembled from components whose values are symbolic bytes over a URL-safe
// alphabet (so net/url's scanning loops have one feasible outcome per byte, decided by the
// solver); strconv.Atoi, time.ParseDuration and strconv.ParseBool are overridden by
// uninterpreted stubs: each distinct input gets an arbitrary (value, ok) pair, remembered so
// that the oracle can say "option X holds the parse of parameter X's own text".

type verifParsed struct {
	in string
	n  int64
	ok bool
}

var verifParseTab []verifParsed

func verifUninterpreted(s string) (int64, bool) {
	for _, e := range verifParseTab {
		if e.in == s {
			return e.n, e.ok
		}
	}
	e := verifParsed{in: s, n: verifNondetInt64(), ok: verifNondetBool()}
	verifParseTab = append(verifParseTab, e)
	return e.n, e.ok
}

var verifErrParse = errors.New("verif: stub parse error")

func verifAtoi(s string) (int, error) {
	n, ok := verifUninterpreted("i" + s)
	if !ok {
		return 0, verifErrParse
	}
	return int(n), nil
}

func verifParseDuration(s string) (time.Duration, error) {
	n, ok := verifUninterpreted("d" + s)
	if !ok {
		return 0, verifErrParse
	}
	return time.Duration(n), nil
}

func verifParseBool(s string) (bool, error) {
	n, ok := verifUninterpreted("b" + s)
	if !ok {
		return false, verifErrParse
	}
	return n&1 == 1, nil
}

// verifSafe: n symbolic bytes from [a-z0-9].
func verifSafe(n int) string {
	b := verifNondetBytes(n)
	for _, c := range b {
		verifAssume((c >= 'a' && c <= 'z') || (c >= '0' && c <= '9'))
	}
	return string(b)
}

var verifURLParams = []string{"db", "dial_timeout", "write_timeout", "addr", "skip_verify", "protocol", "client_cache", "max_retries", "client_name", "master_set"}

// VerifC44_query: every pair of query parameters, in both orders, with symbolic values.
func VerifC44_query() {
	verifParseTab = nil
	scheme := []string{"redis", "rediss", "unix", "valkeys"}[verifChoose(4)]
	url := scheme + "://h:7"
	path := ""
	if scheme == "unix" {
		url = "unix:///s"
	} else if verifChoose(2) == 0 {
		path = verifSafe(1)
		url += "/" + path
	}
	np := len(verifURLParams)
	i := verifChoose(np + 1) // np = none
	j := i
	if i < np {
		j = i + verifChoose(np-i)
	}
	val := map[string]string{}
	var order []string
	if i < np {
		order = append(order, verifURLParams[i])
		if j != i {
			order = append(order, verifURLParams[j])
			if verifChoose(2) == 1 {
				order[0], order[1] = order[1], order[0]
			}
		}
	}
	sep := "?"
	for _, p := range order {
		var v string
		switch p {
		case "addr":
			v = []string{"h2:7000", "h3", ":7001"}[verifChoose(3)]
		case "skip_verify", "protocol", "client_cache", "max_retries":
			// "", the distinguished literal, or an arbitrary symbolic byte
			switch verifChoose(3) {
			case 0:
				v = ""
			case 1:
				v = map[string]string{"skip_verify": "1", "protocol": "2", "client_cache": "0", "max_retries": "0"}[p]
			default:
				v = verifSafe(1)
			}
		default:
			v = verifSafe(1 + verifChoose(2))
		}
		val[p] = v
		url += sep + p + "=" + v
		sep = "&"
	}
	opt, err := ParseURL(url)

	// reference mapping, written from the documentation
	has := func(p string) bool { _, ok := val[p]; return ok }
	wantErr := false
	wantDB := 0
	if path != "" {
		n, e := verifAtoi(path)
		wantDB, wantErr = n, e != nil
	}
	if !wantErr && has("db") {
		n, e := verifAtoi(val["db"])
		wantDB, wantErr = n, e != nil
	}
	var wantDial, wantWrite time.Duration
	if !wantErr && has("dial_timeout") {
		d, e := verifParseDuration(val["dial_timeout"])
		wantDial, wantErr = d, e != nil
	}
	if !wantErr && has("write_timeout") {
		d, e := verifParseDuration(val["write_timeout"])
		wantWrite, wantErr = d, e != nil
	}
	tls := scheme == "rediss" || scheme == "valkeys"
	wantSkip := false
	if !wantErr && tls && has("skip_verify") {
		if val["skip_verify"] == "" {
			wantSkip = true
		} else {
			b, e := verifParseBool(val["skip_verify"])
			wantSkip, wantErr = b, e != nil
		}
	}
	if wantErr {
		verifAssert(err != nil, "an invalid parameter value is rejected with an error")
		verifReach("rejected")
		return
	}
	verifAssert(err == nil, "a URL with valid parameter values is accepted")
	verifAssert(opt.SelectDB == wantDB, "database number comes from the path or the db parameter")
	verifAssert(opt.Dialer.Timeout == wantDial, "dial_timeout (and only it) sets the dial timeout")
	verifAssert(opt.ConnWriteTimeout == wantWrite, "write_timeout (and only it) sets the connection write timeout")
	verifAssert(opt.AlwaysRESP2 == (val["protocol"] == "2"), "protocol=2 selects RESP2")
	verifAssert(opt.DisableCache == (val["client_cache"] == "0"), "client_cache=0 disables the cache")
	verifAssert(opt.DisableRetry == (val["max_retries"] == "0"), "max_retries=0 disables retries")
	verifAssert(opt.ClientName == val["client_name"], "client_name sets the client name")
	verifAssert(opt.Sentinel.MasterSet == val["master_set"], "master_set sets the sentinel master set")
	if tls {
		verifAssert(opt.TLSConfig != nil && opt.TLSConfig.InsecureSkipVerify == wantSkip, "skip_verify sets InsecureSkipVerify on TLS URLs")
		verifAssert(opt.TLSConfig != nil && opt.TLSConfig.ServerName == "h", "the TLS server name is the URL's own host, whatever other parameters say")
	} else {
		verifAssert(opt.TLSConfig == nil, "no TLS configuration for plain schemes")
	}
	first := "h:7"
	if scheme == "unix" {
		first = "/s"
	}
	wantAddrs := []string{first}
	if has("addr") {
		switch val["addr"] {
		case "h2:7000":
			wantAddrs = append(wantAddrs, "h2:7000")
		case "h3":
			wantAddrs = append(wantAddrs, net.JoinHostPort(map[bool]string{true: "", false: "h:7"}[scheme == "unix"], "6379"))
		default:
			wantAddrs = append(wantAddrs, net.JoinHostPort(map[bool]string{true: "", false: "h:7"}[scheme == "unix"], "7001"))
		}
	}
	verifAssert(len(opt.InitAddress) == len(wantAddrs), "one address from the authority plus one per addr parameter")
	verifAssert(opt.InitAddress[0] == wantAddrs[0], "first address is the URL's host:port / socket path")
	verifAssert(opt.Username == "" && opt.Password == "", "no credentials invented")
	verifReach("accepted")
}

// VerifC44_structure: scheme, credentials, host/port and path handling without a query.
func VerifC44_structure() {
	verifParseTab = nil
	scheme := []string{"redis", "rediss", "valkey", "valkeys", "unix", "http", ""}[verifChoose(7)]
	user, pass, hasUser, hasPass := "", "", false, false
	switch verifChoose(3) {
	case 1:
		user, hasUser = verifSafe(1), true
	case 2:
		user, pass, hasUser, hasPass = verifSafe(1), verifSafe(2), true, true
	}
	auth := ""
	if hasUser {
		auth = user
		if hasPass {
			auth += ":" + pass
		}
		auth += "@"
	}
	hostKind := verifChoose(4)
	host := []string{"", "h", "h:1234", "[::1]:99"}[hostKind]
	pathKind := verifChoose(4)
	var path, dbtxt string
	switch pathKind {
	case 1:
		path = "/"
	case 2:
		dbtxt = verifSafe(1)
		path = "/" + dbtxt
	case 3:
		path = "/a/b"
	}
	var url string
	if scheme == "" {
		url = auth + host + path
	} else {
		url = scheme + "://" + auth + host + path
	}
	opt, err := ParseURL(url)
	switch scheme {
	case "http", "":
		verifAssert(err != nil, "unsupported schemes are rejected")
		verifReach("badscheme")
		return
	}
	if scheme != "unix" {
		if pathKind == 3 {
			verifAssert(err != nil, "a path with more than one segment is rejected")
			return
		}
		if pathKind == 1 || pathKind == 2 {
			// "/<text>": the database number is the parse of <text> (also for the empty text)
			n, e := verifAtoi(dbtxt)
			if e != nil {
				verifAssert(err != nil, "an invalid database number in the path is rejected")
				return
			}
			verifAssert(err == nil && opt.SelectDB == n, "database number from the path")
		}
	}
	verifAssert(err == nil, "well-formed URL accepted")
	verifAssert(opt.Username == user && opt.Password == pass, "credentials from the userinfo part")
	verifAssert(len(opt.InitAddress) == 1, "exactly one address")
	if scheme == "unix" {
		verifAssert(opt.InitAddress[0] == path, "unix URLs use the socket path as the address")
		verifAssert(opt.DialCtxFn != nil, "unix URLs dial a unix socket")
	} else {
		want := []string{"localhost:6379", "h:6379", "h:1234", "[::1]:99"}[hostKind]
		if hostKind == 1 {
			// "h" has no port: SplitHostPort fails, host falls back to u.Host
			want = "h:6379"
		}
		verifAssert(opt.InitAddress[0] == want, "address is host:port with localhost and 6379 as defaults")
		tls := scheme == "rediss" || scheme == "valkeys"
		verifAssert((opt.TLSConfig != nil) == tls, "TLS exactly for the s-schemes")
		if tls {
			wantSN := []string{"localhost", "h", "h", "::1"}[hostKind]
			verifAssert(opt.TLSConfig.ServerName == wantSN, "the TLS server name is the URL's host")
		}
	}
	verifAssert(opt.Dialer.Timeout == 0 && opt.ConnWriteTimeout == 0 && !opt.AlwaysRESP2 && !opt.DisableCache && !opt.DisableRetry && opt.ClientName == "" && opt.Sentinel.MasterSet == "", "absent parameters leave their options untouched")
	verifReach("structure")
}
