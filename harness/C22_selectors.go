package rueidis

// C22: read-node selectors follow their documented priorities.

// verifAdvanceCounter brings the selector's private round-robin counter to v. Natively this is
// done by v calls with a two-node list that matches no AZ (each such call adds exactly one);
// the engine intercepts the call and stores v (possibly symbolic) into the captured counter.
func verifAdvanceCounter(sel func(uint16, []NodeInfo) int, v uint32) {
	two := []NodeInfo{{AZ: "\x00\x00p"}, {AZ: "\x00\x00r"}}
	for i := uint32(0); i < v; i++ {
		sel(0, two)
	}
}

func verifContains(xs []int, x int) bool {
	for _, y := range xs {
		if y == x {
			return true
		}
	}
	return false
}

func verifSelectorCheck(which int, clientAZ string, nodes []NodeInfo, symCounter bool) {
	var sel func(uint16, []NodeInfo) int
	switch which {
	case 0:
		sel = PreferReplicaNodeSelector()
	case 1:
		sel = AZAffinityNodeSelector(clientAZ)
	default:
		sel = AZAffinityReplicasAndPrimaryNodeSelector(clientAZ)
	}
	var c0 uint32
	if symCounter {
		// any call history = any counter value: one symbolic step covers call sequences of any length
		c0 = verifNondetUint32()
		verifAssume(c0 < 0xfffffff0) // counter wrap-around (once per 2^32 calls) is outside the rotation claim
	} else {
		// 32-bit remainder by constants near 255 does not finish in the solver (measured: unknown
		// after 30 s per query), so the large lists use concrete counter phases
		c0 = []uint32{0, 1, 2, 3, 7, 252, 253, 254, 255, 256, 65535}[verifChoose(11)]
	}
	verifAdvanceCounter(sel, c0)
	n := len(nodes)
	r := sel(uint16(verifNondetUint16()), nodes)
	verifAssert(r == -1 || (r >= 0 && r < n), "selector returns -1 or a valid node index")

	// the documented ranking, written independently
	var cands []int
	limit := n
	if limit > 255 {
		limit = 255
	}
	var same []int
	for i := 1; i < limit && len(same) < 8; i++ {
		if nodes[i].AZ == clientAZ {
			same = append(same, i)
		}
	}
	switch {
	case which != 0 && len(same) > 0:
		cands = same
		verifReach("sameaz")
	case which == 2 && n > 0 && nodes[0].AZ == clientAZ:
		cands = []int{0}
		verifReach("primaryaz")
	default:
		// any replica: the contiguous range 1..n-1
		if n <= 1 {
			verifAssert(r == -1, "no candidate: primary fallback (-1)")
			verifReach("fallback")
			return
		}
		verifAssert(r >= 1, "any-replica fallback returns a replica index (lower bound)")
		verifAssert(r < n, "any-replica fallback returns a replica index (upper bound)")
		r2 := sel(0, nodes)
		verifAssert(r2 >= 1, "second result is a replica index (lower bound)")
		verifAssert(r2 < n, "second result is a replica index (upper bound)")
		if n >= 3 {
			verifAssert(r2 != r, "consecutive calls rotate through the replicas")
			verifReach("rotate")
		}
		return
	}
	verifAssert(verifContains(cands, r), "result is one of the best-ranked candidates")
	r2 := sel(0, nodes)
	verifAssert(verifContains(cands, r2), "second result is one of the best-ranked candidates")
	if len(cands) >= 2 {
		verifAssert(r2 != r, "consecutive calls rotate through equally ranked candidates")
		verifReach("rotate")
	}
}

// VerifC22_small: every node list of ≤ max_nodes nodes with a symbolic AZ byte per node.
func VerifC22_small() {
	n := verifChoose(verifParam("max_nodes", 4) + 1)
	clientAZ := verifNondetString(1)
	var nodes []NodeInfo
	if n > 0 || verifChoose(2) == 0 {
		nodes = make([]NodeInfo, n)
	}
	for i := range nodes {
		nodes[i].AZ = verifNondetString(1)
	}
	verifSelectorCheck(verifChoose(3), clientAZ, nodes, true)
}

// VerifC22_large: node lists around the 255-node search cap with ≤ 2 symbolic AZ positions.
func VerifC22_large() {
	n := []int{254, 255, 256, 257, 300}[verifChoose(5)]
	clientAZ := "z"
	nodes := make([]NodeInfo, n)
	for i := range nodes {
		nodes[i].AZ = "a"
	}
	for k := 0; k < 2; k++ {
		pos := []int{1, 253, 254, 255, 256, n - 1}[verifChoose(6)]
		if pos < n {
			nodes[pos].AZ = verifNondetString(1)
		}
	}
	verifSelectorCheck(1+verifChoose(2), clientAZ, nodes, false)
}

// VerifC22_many: eight or more same-AZ replicas (the selector keeps at most 8 candidates): every
// one of the 8 kept candidates must be a same-AZ replica, for every counter value.
func VerifC22_many() {
	n := []int{9, 10, 12}[verifChoose(3)]
	clientAZ := "z"
	nodes := make([]NodeInfo, n)
	for i := range nodes {
		nodes[i].AZ = "z"
	}
	nodes[0].AZ = verifNondetString(1)
	for k := 0; k < 2; k++ {
		pos := 1 + verifChoose(n-1)
		nodes[pos].AZ = verifNondetString(1)
	}
	// concrete counter phases (they cover every residue modulo 8 that two consecutive calls can hit)
	verifSelectorCheck(1+verifChoose(2), clientAZ, nodes, false)
}
