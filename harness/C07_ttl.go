package rueidis

import "time"

// C07: cached replies expire at the earlier of the client TTL (from the request start) and the
// server PTTL (from reply arrival; not for static-TTL commands). Time is symbolic (Unix ms).

func verifTTLStep(st CacheStore) {
	const lim = int64(1) << 40
	static := verifNondetBool()
	t0 := verifNondetInt64()
	ttl := verifNondetInt64()
	d1 := verifNondetInt64()
	d2 := verifNondetInt64()
	pttl := verifNondetInt64()
	verifAssume(t0 >= 1 && t0 < lim && ttl > -lim && ttl < lim && d1 >= 0 && d1 < lim && d2 >= 0 && d2 < lim && pttl > -lim && pttl < lim)
	verifAssume(t0+ttl > 0) // the 7-byte expiry field holds 0 < exp < 2^55; 0 is the "no expiry" sentinel
	t1, t2 := t0+d1, t0+d1+d2

	v, e := st.Flight("k", "GET", time.Duration(ttl)*time.Millisecond, verifTimeMs(t0))
	verifAssert(v.typ == 0 && e == nil, "first flight misses and sends")

	// reply arrives at t1: what the connection reader does before committing (pipe.go)
	verifSetNowMs(t1)
	now := time.Now()
	cp := strmsg(typeSimpleString, "v")
	cp.attrs = cacheMark
	if !static && pttl >= 0 {
		cp.setExpireAt(now.Add(time.Duration(pttl) * time.Millisecond).UnixMilli())
	}
	pxat := st.Update("k", "GET", cp)

	exp := t0 + ttl
	if !static && pttl >= 0 && t1+pttl < exp {
		exp = t1 + pttl
		verifReach("serverttl")
	} else {
		verifReach("clientttl")
	}
	verifAssert(pxat == exp, "the committed expiry is the earlier of client and server expiry")

	// a later read at t2
	verifSetNowMs(t2)
	v2, _ := st.Flight("k", "GET", time.Minute, verifTimeMs(t2))
	hit := v2.typ != 0
	verifAssert(hit == (t2 < exp), "a hit is returned exactly before the expiry")
	if hit {
		verifAssert(v2.IsCacheHit(), "hits are marked as cache hits")
		verifAssert(v2.CachePXAT() == exp, "CachePXAT reports the expiry")
		verifAssert(v2.CachePTTL() == exp-t2, "CachePTTL reports the remaining milliseconds")
		if exp-t2 < 1<<20 {
			s := v2.CacheTTL()
			verifAssert(s*1000 >= exp-t2 && (s-1)*1000 < exp-t2, "CacheTTL reports the remaining time in seconds, rounded up")
		}
		verifReach("hit")
	} else {
		verifReach("expired")
	}
}

func VerifC07_lru() {
	verifTTLStep(newLRU(CacheStoreOption{CacheSizeEachConn: 1 << 30}))
}

func VerifC07_adapter() {
	verifTTLStep(NewSimpleCacheAdapter(&verifSimpleCache{m: map[string]RedisMessage{}}))
}

// VerifC07_batch: the batched lookup (lru.Flights, used by DoMultiCache) gives every missed
// command its own client TTL, whatever mix of hits, in-flight entries and misses precedes it.
func VerifC07_batch() {
	const lim = int64(1) << 40
	c := newLRU(CacheStoreOption{CacheSizeEachConn: 1 << 30}).(*lru)
	t0 := verifNondetInt64()
	verifAssume(t0 >= 1 && t0 < lim)
	now := verifTimeMs(t0)
	n := 2 + verifChoose(2)
	keys := []string{"a", "b", "c"}
	multi := make([]CacheableTTL, n)
	ttl := make([]int64, n)
	pre := make([]int, n) // 0 miss, 1 already in flight, 2 already cached
	for i := 0; i < n; i++ {
		ttl[i] = verifNondetInt64()
		verifAssume(ttl[i] >= 1 && ttl[i] < lim)
		multi[i] = CT(verifGetCache(keys[i]), time.Duration(ttl[i])*time.Millisecond)
		pre[i] = verifChoose(3)
		if pre[i] >= 1 {
			c.Flight(keys[i], "GET", time.Duration(lim)*time.Millisecond, now)
		}
		if pre[i] == 2 {
			c.Update(keys[i], "GET", strmsg(typeSimpleString, "old"))
		}
	}
	results := make([]RedisResult, n)
	entries := map[int]CacheEntry{}
	missed := c.Flights(now, multi, results, entries)
	mi := 0
	for i := 0; i < n; i++ {
		switch pre[i] {
		case 0:
			verifAssert(mi < len(missed) && missed[mi] == i, "every missed command is reported as missed, in order")
			mi++
			e := c.store[keys[i]].cache["GET"].Value.(*cacheEntry)
			verifAssert(e.val.typ == 0 && e.val.getExpireAt() == t0+ttl[i], "a missed command is put in flight with its own client TTL")
			verifReach("missed")
		case 1:
			verifAssert(entries[i] != nil, "an in-flight command is waited for")
		default:
			v, err := results[i].ToString()
			verifAssert(err == nil && v == "old", "a cached command is served positionally")
		}
	}
	verifAssert(mi == len(missed), "nothing else is reported as missed")
}
