package rueidis

import "time"

// C08 (store side): a hit for one cache identity never returns another identity's reply, for
// the built-in lru store and for NewSimpleCacheAdapter stores.

type verifSimpleCache struct{ m map[string]RedisMessage }

func (s *verifSimpleCache) Get(key string) RedisMessage      { return s.m[key] }
func (s *verifSimpleCache) Set(key string, v RedisMessage)   { s.m[key] = v }
func (s *verifSimpleCache) Del(key string)                   { delete(s.m, key) }
func (s *verifSimpleCache) Flush()                           { s.m = map[string]RedisMessage{} }

func verifStoreIdentity(st CacheStore, isAdapter bool) {
	maxLen := verifParam("max_len", 2)
	k1 := verifNondetString(verifChoose(maxLen + 1))
	c1 := verifNondetString(1 + verifChoose(maxLen))
	k2 := verifNondetString(verifChoose(maxLen + 1))
	c2 := verifNondetString(1 + verifChoose(maxLen))
	now := time.Now()
	v, e := st.Flight(k1, c1, time.Minute, now)
	verifAssert(v.typ == 0 && e == nil, "first flight on an empty store is a miss that sends")
	st.Update(k1, c1, strmsg(typeSimpleString, "v1"))
	v2, _ := st.Flight(k2, c2, time.Minute, now)
	if k1 == k2 && c1 == c2 {
		verifAssert(v2.typ == typeSimpleString && v2.string() == "v1", "same identity hits with the stored reply")
		verifReach("hit")
		return
	}
	if v2.typ != 0 {
		if isAdapter && k1+c1 == k2+c2 {
			verifFail("adapter store key is key+cmd without a delimiter: distinct (key, cmd) pairs with equal concatenation collide")
		}
		verifFail("a flight for a different (key, cmd) identity was answered with another command's cached reply")
	}
	verifReach("miss")
}

func VerifC08_lru() {
	verifStoreIdentity(newLRU(CacheStoreOption{CacheSizeEachConn: 1 << 20}), false)
}

func VerifC08_adapter() {
	verifStoreIdentity(NewSimpleCacheAdapter(&verifSimpleCache{m: map[string]RedisMessage{}}), true)
}
