package rueidis

// C15: typed reply accessors never panic and propagate errors.
//
// Reply values are drawn from the representation invariant of decoder output (validMsg, DESIGN
// appendix A.2): a node is string-like (bytes, no array), aggregate (array, no bytes; child
// count of any parity, also for maps) or scalar; within its class the type tag is a symbolic
// byte, the integer payload is symbolic, string bytes are symbolic.

var verifStrTypes = []byte{typeBlobString, typeSimpleString, typeSimpleErr, typeFloat, typeBlobErr, typeVerbatimString, typeBigNumber}
var verifAggTypes = []byte{typeArray, typeMap, typeSet, typePush}
var verifScalarTypes = []byte{typeInteger, typeBool, typeNull, typeEnd, 0}

func verifTypIn(set []byte) byte {
	t := verifNondetByte()
	ok := false
	for _, c := range set {
		ok = ok || t == c
	}
	verifAssume(ok)
	return t
}

// verifGenMsg draws a decoder-valid message. Leaves below depth 0; aggregates have 0..width
// children. strlens: candidate string lengths.
func verifGenMsg(depth, width int, strlens []int) RedisMessage {
	classes := 3
	if depth <= 0 {
		classes = 2
	}
	switch verifChoose(classes) {
	case 0: // string-like
		n := strlens[verifChoose(len(strlens))]
		m := strmsg(0, verifNondetString(n))
		m.typ = verifTypIn(verifStrTypes)
		if n == 0 && verifChoose(2) == 0 {
			m.bytes = nil // streamed empty string
		}
		return m
	case 1: // scalar
		m := RedisMessage{typ: verifTypIn(verifScalarTypes)}
		if m.typ == typeInteger {
			m.intlen = verifNondetInt64()
		} else if m.typ == typeBool {
			m.intlen = int64(verifNondetInt(0, 1))
		}
		return m
	default:
		n := verifChoose(width + 1)
		vs := make([]RedisMessage, n)
		for i := range vs {
			vs[i] = verifGenMsg(depth-1, width, strlens)
		}
		m := slicemsg(0, vs)
		m.typ = verifTypIn(verifAggTypes)
		verifAssume(m.typ != typeMap || n%2 == 0) // the decoder rejects odd streamed maps
		return m
	}
}

// verifLazyMsg draws a decoder-valid message whose children are materialised lazily: the
// accessor under test explores only the part of the shape it actually reads. kids[level] is
// the maximal child count of an aggregate at that level (levels beyond len(kids) are leaves).
func verifLazyMsg(level int, kids []int) RedisMessage {
	classes := 3
	if level >= len(kids) {
		classes = 2
	}
	switch verifChoose(classes) {
	case 0: // string-like
		m := strmsg(0, verifNondetString(verifChoose(2)))
		m.typ = verifTypIn(verifStrTypes)
		return m
	case 1: // scalar
		m := RedisMessage{typ: verifTypIn(verifScalarTypes)}
		if m.typ == typeInteger {
			m.intlen = verifNondetInt64()
		} else if m.typ == typeBool {
			m.intlen = int64(verifNondetInt(0, 1))
		}
		return m
	default:
		n := verifChoose(kids[level] + 1)
		vs := verifLazySlice(n, func(i int) RedisMessage { return verifLazyMsg(level+1, kids) })
		m := slicemsg(0, vs)
		m.typ = verifTypIn(verifAggTypes)
		verifAssume(m.typ != typeMap || n%2 == 0) // the decoder rejects odd streamed maps
		return m
	}
}

// VerifC15_lazy: accessors on lazily initialised trees; parameter kids = decimal digits, one
// per level from the root (e.g. 212: root ≤ 2 children, those ≤ 1, those ≤ 2, then leaves).
func VerifC15_lazy() {
	var kids []int
	for k := verifParam("kids", 22); k > 0; k /= 10 {
		kids = append([]int{k % 10}, kids...)
	}
	m := verifLazyMsg(0, kids)
	verifCheckAccessor(&m)
}

// verifGenFlat: an aggregate of n leaves (the wide shapes: FT.SEARCH, scan, pop replies).
func verifGenFlat(n int, strlens []int) RedisMessage {
	vs := make([]RedisMessage, n)
	for i := range vs {
		vs[i] = verifGenMsg(0, 0, strlens)
	}
	m := slicemsg(0, vs)
	m.typ = verifTypIn(verifAggTypes)
	verifAssume(m.typ != typeMap || n%2 == 0)
	return m
}

type verifJSONT struct {
	A int `json:"a"`
}

const verifNAccessors = 44

// verifCallAccessor invokes accessor k on m (directly and through RedisResult) and returns
// the error plus a class: 0 = basic typed accessor (wrong shape must be a parse error),
// 1 = structured helper (any error kind).
func verifCallAccessor(k int, m *RedisMessage) (err error, basic bool) {
	r := RedisResult{val: *m}
	switch k {
	case 0:
		_, err = m.ToInt64()
		return err, true
	case 1:
		_, err = m.ToBool()
		return err, true
	case 2:
		_, err = m.ToFloat64()
		return err, false
	case 3:
		_, err = m.ToString()
		return err, true
	case 4:
		_, err = m.AsReader()
		return err, true
	case 5:
		_, err = m.AsBytes()
		return err, true
	case 6:
		_, err = m.AsInt64()
	case 7:
		_, err = m.AsUint64()
	case 8:
		_, err = m.AsBool()
		return err, true
	case 9:
		_, err = m.AsFloat64()
	case 10:
		_, err = m.ToArray()
		return err, true
	case 11:
		_, err = m.AsStrSlice()
		return err, true
	case 12:
		_, err = m.AsIntSlice()
	case 13:
		_, err = m.AsFloatSlice()
	case 14:
		_, err = m.AsBoolSlice()
		return err, true
	case 15:
		_, err = m.AsXRangeEntry()
	case 16:
		_, err = m.AsXRange()
	case 17:
		_, err = m.AsZScore()
	case 18:
		_, err = m.AsZScores()
	case 19:
		_, err = m.AsXRead()
	case 20:
		_, err = m.AsXRangeSlice()
	case 21:
		_, err = m.AsXRangeSlices()
	case 22:
		_, err = m.AsXReadSlices()
	case 23:
		_, err = m.AsLMPop()
	case 24:
		_, err = m.AsZMPop()
	case 25:
		_, _, err = m.AsFtSearch()
	case 26:
		_, _, err = m.AsFtAggregate()
	case 27:
		_, _, _, err = m.AsFtAggregateCursor()
	case 28:
		_, err = m.AsGeosearch()
	case 29:
		_, err = m.AsMap()
		return err, true
	case 30:
		_, err = m.AsStrMap()
		return err, true
	case 31:
		_, err = m.AsIntMap()
	case 32:
		_, err = m.AsScanEntry()
	case 33:
		_, err = m.ToMap()
		return err, true
	case 34:
		_, err = m.ToAny()
	case 35:
		err = m.Error()
		return err, true
	case 36:
		_ = m.IsNil() || m.IsInt64() || m.IsFloat64() || m.IsString() || m.IsBool() || m.IsArray() || m.IsMap()
		return err, true
	case 37:
		_ = m.IsCacheHit()
		_ = m.CachePXAT()
		_ = r.IsCacheHit()
		_ = r.CachePXAT()
		return nil, true
	case 38:
		// JSON family: encoding/json.Unmarshal is an engine stub (returns nil or an error, by decision)
		var dst []verifJSONT
		var one verifJSONT
		switch verifChoose(3) {
		case 0:
			err = DecodeSliceOfJSON(r, &dst)
		case 1:
			err = m.DecodeJSON(&one)
		default:
			err = r.DecodeJSON(&one)
		}
	case 39:
		_ = m.approximateSize()
		_ = m.CacheSize()
		return nil, true
	case 40:
		// toMap's callers establish an even child count (AsMap checks it, ToMap relies on the
		// decoder rejecting odd maps), so it is exercised under that precondition
		if len(m.values())%2 == 0 {
			_, _ = toMap(m.values())
		}
		return nil, true
	case 41:
		_, err = m.AsBytes()
		return err, true
	case 42:
		_ = r.NonRedisError()
		return nil, true
	default:
		e := (*RedisError)(m)
		_ = e.Error()
		_ = e.IsNil()
		return nil, true
	}
	return err, false
}

// verifCallResultAccessor: the RedisResult wrappers (err set, or delegating to the message).
func verifCallResultAccessor(k int, r RedisResult) (err error) {
	switch k {
	case 0:
		_, err = r.ToInt64()
	case 1:
		_, err = r.ToBool()
	case 2:
		_, err = r.ToFloat64()
	case 3:
		_, err = r.ToString()
	case 4:
		_, err = r.AsReader()
	case 5:
		_, err = r.AsBytes()
	case 6:
		_, err = r.AsInt64()
	case 7:
		_, err = r.AsUint64()
	case 8:
		_, err = r.AsBool()
	case 9:
		_, err = r.AsFloat64()
	case 10:
		_, err = r.ToArray()
	case 11:
		_, err = r.AsStrSlice()
	case 12:
		_, err = r.AsIntSlice()
	case 13:
		_, err = r.AsFloatSlice()
	case 14:
		_, err = r.AsBoolSlice()
	case 15:
		_, err = r.AsXRangeEntry()
	case 16:
		_, err = r.AsXRange()
	case 17:
		_, err = r.AsZScore()
	case 18:
		_, err = r.AsZScores()
	case 19:
		_, err = r.AsXRead()
	case 20:
		_, err = r.AsXRangeSlice()
	case 21:
		_, err = r.AsXRangeSlices()
	case 22:
		_, err = r.AsXReadSlices()
	case 23:
		_, err = r.AsLMPop()
	case 24:
		_, err = r.AsZMPop()
	case 25:
		_, _, err = r.AsFtSearch()
	case 26:
		_, _, err = r.AsFtAggregate()
	case 27:
		_, _, _, err = r.AsFtAggregateCursor()
	case 28:
		_, err = r.AsGeosearch()
	case 29:
		_, err = r.AsMap()
	case 30:
		_, err = r.AsStrMap()
	case 31:
		_, err = r.AsIntMap()
	case 32:
		_, err = r.AsScanEntry()
	case 33:
		_, err = r.ToMap()
	case 34:
		_, err = r.ToAny()
	case 35:
		_, err = r.ToMessage()
	default:
		err = r.Error()
	}
	return err
}

// VerifC15_results: every RedisResult wrapper with a transport error set, or delegating to a
// small message (the wrappers are straight-line: they test r.err and call the message accessor).
func VerifC15_results() {
	k := verifChoose(37)
	if verifChoose(2) == 0 {
		sentinel := errConnExpired
		err := verifCallResultAccessor(k, RedisResult{err: sentinel})
		verifAssert(err == sentinel, "a non-redis error is returned unchanged by every accessor")
		verifReach("transporterr")
		return
	}
	if k == 36 {
		k = 35
	}
	// concrete payloads, symbolic type tags (the float-parse stub is not memoised, so symbolic
	// text would let the two calls below disagree spuriously)
	var m RedisMessage
	switch verifChoose(4) {
	case 0:
		m = strmsg(0, []string{"", "1", "OK"}[verifChoose(3)])
		m.typ = verifTypIn(verifStrTypes)
	case 1:
		m = RedisMessage{typ: verifTypIn(verifScalarTypes), intlen: int64(verifNondetInt(0, 1))}
	case 2:
		m = slicemsg(0, []RedisMessage{strmsg(typeBlobString, "a"), strmsg(typeBlobString, "1")})
		m.typ = verifTypIn(verifAggTypes)
	default:
		m = slicemsg(0, []RedisMessage{})
		m.typ = verifTypIn(verifAggTypes)
	}
	e1 := verifCallResultAccessor(k, RedisResult{val: m})
	e2, _ := verifCallAccessor(k, &m)
	verifAssert((e1 == nil) == (e2 == nil), "RedisResult accessor agrees with the message accessor")
	verifReach("delegated")
}

func verifCheckAccessor(m *RedisMessage) {
	lo := verifParam("first_accessor", 0)
	k := lo + verifChoose(verifParam("last_accessor", verifNAccessors-1)-lo+1)
	rootTyp := m.typ
	err, basic := verifCallAccessor(k, m)
	// nil and error replies surface as Nil / RedisError from every accessor that reports errors
	if err != nil && k <= 36 && k != 36 {
		if rootTyp == typeNull {
			verifAssert(IsRedisNil(err), "a nil reply surfaces as Nil")
			verifReach("nil")
		}
		if rootTyp == typeSimpleErr || rootTyp == typeBlobErr {
			_, isRedisErr := IsRedisErr(err)
			verifAssert(isRedisErr, "an error reply surfaces as RedisError")
			verifReach("rediserr")
		}
	}
	if err != nil && basic && rootTyp != typeNull && rootTyp != typeSimpleErr && rootTyp != typeBlobErr {
		verifAssert(IsParseErr(err), "a wrong-shaped reply yields a parse error from the basic typed accessors")
		verifReach("parseerr")
	}
	if err == nil {
		verifReach("value")
	}
}

// VerifC15_trees: every accessor on every tree of bounded depth/width.
func VerifC15_trees() {
	strlens := []int{0, 1}
	m := verifGenMsg(verifParam("depth", 2), verifParam("width", 2), strlens)
	verifCheckAccessor(&m)
}

// VerifC15_flat: every accessor on wide flat aggregates.
func VerifC15_flat() {
	lo, hi := verifParam("min_n", 3), verifParam("max_n", 4)
	n := lo + verifChoose(hi-lo+1)
	m := verifGenFlat(n, []int{0, 1})
	verifCheckAccessor(&m)
}

// VerifC15_errtext: the RedisError classifiers on arbitrary error texts.
func VerifC15_errtext() {
	var s string
	if verifChoose(2) == 0 {
		// free text
		s = verifNondetString(verifChoose(verifParam("max_text", 8) + 1))
	} else {
		// PREFIX[ sp token]* for the redirect family, tokens of 0..2 symbolic bytes
		s = []string{"MOVED", "ASK", "REDIRECT", "TRYAGAIN", "LOADING"}[verifChoose(5)]
		for t := verifChoose(4); t > 0; t-- {
			s += " " + verifNondetString(verifChoose(3))
		}
	}
	m := strmsg(typeSimpleErr, s)
	if verifChoose(2) == 0 {
		m.typ = typeBlobErr
	}
	e := (*RedisError)(&m)
	switch verifChoose(9) {
	case 0:
		_, _ = e.IsMoved()
	case 1:
		_, _ = e.IsAsk()
	case 2:
		_, _ = e.IsRedirect()
	case 3:
		_ = e.IsTryAgain()
	case 4:
		_ = e.IsLoading()
	case 5:
		_ = e.IsClusterDown()
	case 6:
		_ = e.IsNoScript()
	case 7:
		_ = e.IsBusyGroup()
	default:
		_ = IsRedisBusyGroup(e)
		_ = e.Error()
	}
	verifReach("classified")
}
