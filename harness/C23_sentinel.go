package rueidis

import (
	"container/list"
	"context"

	"github.com/redis/rueidis/internal/cmds"
)

// C23: a sentinel client sends primary traffic only to an address that a sentinel reported as
// master and that answered ROLE as master; it moves to the new master after +switch-master and
// never publishes a node that answered with the wrong role.

type verifSentinelWorld struct {
	role     map[string][]string // per data node: ROLE answers, consumed in order (the last one repeats)
	dialFail map[string]bool
	reports  map[string]string // per sentinel: the master address it reports
	conns    map[string]*verifStubConn
	events   map[string]func(PubSubMessage) // per sentinel: the captured Pub/Sub callback
	wrong    map[*verifStubConn]bool         // data connections that answered ROLE with a wrong/erroneous role last time
	park     chan struct{}
	replicas []string // what SENTINEL REPLICAS reports
}

func (w *verifSentinelWorld) connFn(addr string, _ *ClientOption) conn {
	sc := &verifStubConn{addr: addr}
	if report, isSentinel := w.reports[addr]; isSentinel {
		sc.doMulti = func(ctx context.Context, multi []Completed) []RedisResult {
			rs := make([]RedisResult, len(multi))
			for i, c := range multi {
				switch c.Commands()[1] {
				case "SENTINELS":
					rs[i] = NewResult(slicemsg(typeArray, nil), nil)
				case "GET-MASTER-ADDR-BY-NAME":
					host, port := report[:len(report)-2], report[len(report)-1:]
					rs[i] = NewResult(slicemsg(typeArray, []RedisMessage{strmsg(typeBlobString, host), strmsg(typeBlobString, port)}), nil)
				case "REPLICAS":
					var reps []RedisMessage
					for _, r := range w.replicas {
						reps = append(reps, slicemsg(typeArray, []RedisMessage{strmsg(typeBlobString, "ip"), strmsg(typeBlobString, r[:len(r)-2]), strmsg(typeBlobString, "port"), strmsg(typeBlobString, r[len(r)-1:])}))
					}
					rs[i] = NewResult(slicemsg(typeArray, reps), nil)
				default:
					rs[i] = NewResult(slicemsg(typeArray, nil), nil)
				}
			}
			return rs
		}
		sc.receive = func(ctx context.Context, sub Completed, fn func(PubSubMessage)) error {
			w.events[addr] = fn
			<-w.park // the subscription stays open
			return nil
		}
	} else {
		sc.do = func(ctx context.Context, cmd Completed) RedisResult {
			if cmd.Commands()[0] != "ROLE" {
				return NewResult(strmsg(typeSimpleString, "OK"), nil)
			}
			rs := w.role[addr]
			r := rs[0]
			if len(rs) > 1 {
				w.role[addr] = rs[1:]
			}
			w.wrong[sc] = r != "master"
			if r == "err" {
				return NewErrorResult(verifErrPage)
			}
			return NewResult(slicemsg(typeArray, []RedisMessage{strmsg(typeBlobString, r)}), nil)
		}
	}
	sc.dialErr = nil
	if w.dialFail[addr] {
		sc.dialErr = verifErrPage
	}
	w.conns[addr] = sc
	return sc
}

func VerifC23_sentinel() {
	w := &verifSentinelWorld{role: map[string][]string{}, dialFail: map[string]bool{}, reports: map[string]string{}, conns: map[string]*verifStubConn{},
		events: map[string]func(PubSubMessage){}, wrong: map[*verifStubConn]bool{}, park: make(chan struct{})}
	roles := []string{"master", "slave", "err"}
	w.reports["s1:1"] = []string{"m1:1", "m2:1"}[verifChoose(2)]
	w.reports["s2:1"] = "m2:1"
	w.role["m1:1"] = []string{roles[verifChoose(3)]}
	w.role["m2:1"] = []string{roles[verifChoose(2)], roles[verifChoose(2)], "master"} // may change between ROLE calls; eventually it is the master (the client retries forever otherwise)
	w.dialFail["m1:1"] = verifChoose(3) == 0
	opt := &ClientOption{}
	opt.Sentinel.MasterSet = "mymaster"
	c := &sentinelClient{cmd: cmds.NewBuilder(cmds.NoSlot), mOpt: opt, sOpt: newSentinelOpt(opt), connFn: w.connFn,
		sentinels: list.New(), retryHandler: newRetryer(defaultRetryDelayFn)}
	c.sentinels.PushBack("s1:1")
	c.sentinels.PushBack("s2:1")
	check := func(when string) {
		m := c.mConn.Load()
		if m == nil {
			return
		}
		mc := m.(*verifStubConn)
		addr, _ := c.mAddr.Load().(string)
		verifAssert(mc.addr == addr, "the published master connection belongs to the published master address ("+when+")")
		verifAssert(addr == "m1:1" || addr == "m2:1", "the master address is one a sentinel reported ("+when+")")
		// a node that turns out to have the wrong role is closed at once (its connection then fails every
		// call until the retrying refresh publishes a verified master): it is never left open for traffic
		verifAssert(!w.wrong[mc] || mc.closed > 0, "a node that answered ROLE with a wrong role (or failed to answer) is never left published and open ("+when+")")
	}
	err := c._refresh()
	check("after refresh")
	if err == nil {
		verifAssert(c.mConn.Load() != nil, "a successful refresh publishes a master")
		verifReach("refreshed")
	} else {
		verifReach("refreshfailed")
	}
	for _, sc := range w.conns {
		if w.wrong[sc] {
			verifAssert(sc.closed > 0, "a node that answered with the wrong role is closed")
		}
	}
	// fail-over announced by the sentinel we are subscribed to
	verifSettle()
	if fn := w.events[c.sAddr]; fn != nil && err == nil {
		before, _ := c.mAddr.Load().(string)
		target := "m2:1"
		fn(PubSubMessage{Channel: "+switch-master", Message: "mymaster 10.0.0.1 1 " + target[:len(target)-2] + " " + target[len(target)-1:]})
		check("after +switch-master")
		after, _ := c.mAddr.Load().(string)
		if w.role[target][0] == "master" && after == target {
			verifReach("switched")
		}
		if after != before {
			verifAssert(after == target, "primary traffic moves only to the announced new master")
		}
		// traffic follows the published master
		r := c.Do(context.Background(), c.B().Set().Key("k").Value("v").Build())
		_ = r
		got := 0
		for _, sc := range w.conns {
			for _, l := range sc.log {
				if l[0] == "SET" {
					got++
					verifAssert(sc.addr == "m1:1" || sc.addr == "m2:1", "primary traffic goes to a data node a sentinel reported as master")
					verifAssert(!w.wrong[sc] || sc.closed > 0, "primary traffic never reaches an open node that answered ROLE with the wrong role")
				}
			}
		}
		verifAssert(got == 1, "the command is sent exactly once")
	}
	verifReach("done")
}

// VerifC23_replicas: SendToReplicas configuration. The refresh switches the master and a
// replica connection concurrently; afterwards the sentinel announces that the replica has been
// promoted while the old master still answers ROLE as master (not yet demoted).
func VerifC23_replicas() {
	w := &verifSentinelWorld{role: map[string][]string{}, dialFail: map[string]bool{}, reports: map[string]string{}, conns: map[string]*verifStubConn{},
		events: map[string]func(PubSubMessage){}, wrong: map[*verifStubConn]bool{}, park: make(chan struct{})}
	w.reports["s1:1"] = "m1:1"
	w.replicas = []string{"r1:1"}
	w.role["m1:1"] = []string{"master"}
	w.role["r1:1"] = []string{"slave", "master"} // promoted after the first ROLE
	opt := &ClientOption{SendToReplicas: func(cmd Completed) bool { return cmd.IsReadOnly() }}
	opt.Sentinel.MasterSet = "mymaster"
	rOpt := *opt
	rOpt.ReplicaOnly = true
	c := &sentinelClient{cmd: cmds.NewBuilder(cmds.NoSlot), mOpt: opt, sOpt: newSentinelOpt(opt), rOpt: &rOpt, connFn: w.connFn,
		sentinels: list.New(), retryHandler: newRetryer(defaultRetryDelayFn)}
	c.sentinels.PushBack("s1:1")
	err := c._refresh()
	verifAssert(err == nil, "the refresh finds the master and a replica")
	verifSettle()
	mAddr, _ := c.mAddr.Load().(string)
	verifAssert(mAddr == "m1:1" && c.mConn.Load().(*verifStubConn).addr == "m1:1", "primary traffic goes to the reported master")
	verifAssert(c.rConn.Load().(*verifStubConn).addr == "r1:1", "replica traffic goes to the reported replica")
	verifReach("refreshed")
	fn := w.events[c.sAddr]
	verifAssert(fn != nil, "subscribed to the sentinel")
	fn(PubSubMessage{Channel: "+switch-master", Message: "mymaster 10.0.0.1 1 r1 1"})
	mAddr, _ = c.mAddr.Load().(string)
	mc := c.mConn.Load().(*verifStubConn)
	verifAssert(mAddr == "r1:1", "primary traffic moves to the announced new master")
	verifAssert(mc.addr == mAddr, "the published master connection belongs to the published master address")
	r := c.Do(context.Background(), c.B().Set().Key("k").Value("v").Build())
	_ = r
	got := 0
	for _, sc := range w.conns {
		for _, l := range sc.log {
			if l[0] == "SET" {
				got++
				verifAssert(sc.addr == "r1:1", "after the fail-over writes reach the new master only")
			}
		}
	}
	verifAssert(got == 1, "the command is sent exactly once")
	verifReach("switched")
}
