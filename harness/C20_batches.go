package rueidis

import (
	"context"
	"strconv"
	"strings"

	"github.com/redis/rueidis/internal/cmds"
)

// C20: cluster batches keep order and transaction integrity.
//
// Two node stubs model a migrating slot: on its first visit to the source node a keyed command
// is answered ok / MOVED to the other node / ASK to the other node (by decision); the target
// node executes it. Inside MULTI...EXEC a redirected command makes the node answer EXECABORT
// to EXEC, as Redis does. Each node logs what it receives.

type verifNodeSim struct {
	name, other string
	log         []string // command names/ids in arrival order
	fate        map[string]int
	isSource    bool
	inTx        bool
	txBroken    bool
	txQueue     []string
	asked       bool
	slotState   map[string]int // per hash tag: 0 stable here, 1 MOVED away, 2 migrating (ASK per key)
}

func (n *verifNodeSim) doMulti(multi []Completed) []RedisResult {
	rs := make([]RedisResult, len(multi))
	for i, c := range multi {
		argv := c.Commands()
		id := strings.Join(argv, " ")
		n.log = append(n.log, id)
		switch argv[0] {
		case "ASKING":
			n.asked = true
			rs[i] = NewResult(strmsg(typeSimpleString, "OK"), nil)
		case "MULTI":
			n.inTx, n.txBroken, n.txQueue = true, false, nil
			rs[i] = NewResult(strmsg(typeSimpleString, "OK"), nil)
		case "EXEC":
			if n.txBroken {
				rs[i] = verifErrReply("EXECABORT Transaction discarded because of previous errors.")
			} else {
				vs := make([]RedisMessage, len(n.txQueue))
				for j, q := range n.txQueue {
					vs[j] = strmsg(typeSimpleString, "done:"+q+"@"+n.name)
				}
				rs[i] = NewResult(slicemsg(typeArray, vs), nil)
			}
			n.inTx, n.asked = false, false
		default:
			fate := 0
			if n.isSource {
				// the slot is stable here, has MOVED away, or is migrating (then each key either
				// still lives here or is answered ASK): a node never mixes MOVED and ASK for one slot
				tag := argv[1][:3]
				st, known := n.slotState[tag]
				if !known {
					st = verifChoose(3)
					n.slotState[tag] = st
				}
				f, seen := n.fate[id]
				if !seen {
					switch st {
					case 1:
						f = 1
					case 2:
						f = 2 * verifChoose(2)
					}
					n.fate[id] = f
				}
				fate = f
			}
			switch fate {
			case 1:
				rs[i] = verifErrReply("MOVED 1 " + n.other)
				n.txBroken = true
			case 2:
				rs[i] = verifErrReply("ASK 1 " + n.other)
				n.txBroken = true
			default:
				if n.inTx {
					n.txQueue = append(n.txQueue, id)
					rs[i] = NewResult(strmsg(typeSimpleString, "QUEUED"), nil)
				} else {
					rs[i] = NewResult(strmsg(typeSimpleString, "done:"+id+"@"+n.name), nil)
				}
			}
			if !n.inTx {
				n.asked = false
			}
		}
	}
	return rs
}

type verifSlotOwner struct {
	slot  uint16
	owner conn
}

var verifPendingSlots []verifSlotOwner

// override of (*clusterClient).refresh for C20: the refreshed topology assigns the pending slots
func verifRefreshFill(c *clusterClient, ctx context.Context) error {
	c.mu.Lock()
	for _, p := range verifPendingSlots {
		c.wslots[p.slot] = p.owner
	}
	c.mu.Unlock()
	verifPendingSlots = nil
	return nil
}

func VerifC20_batch() {
	a := &verifNodeSim{name: "a:1", other: "b:1", fate: map[string]int{}, isSource: true, slotState: map[string]int{}}
	b := &verifNodeSim{name: "b:1", other: "a:1", fate: map[string]int{}}
	ca, cb := &verifStubConn{addr: "a:1"}, &verifStubConn{addr: "b:1"}
	ca.doMulti = func(ctx context.Context, m []Completed) []RedisResult { return a.doMulti(m) }
	cb.doMulti = func(ctx context.Context, m []Completed) []RedisResult { return b.doMulti(m) }
	opt := &ClientOption{}
	c := &clusterClient{cmd: cmds.NewBuilder(cmds.InitSlot), opt: opt, conns: map[string]connrole{"a:1": {conn: ca}, "b:1": {conn: cb}},
		connFn: func(addr string, _ *ClientOption) conn { return map[string]conn{"a:1": ca, "b:1": cb}[addr] },
		retryHandler: newRetryer(defaultRetryDelayFn), stopCh: make(chan struct{})}
	bd := c.B()
	tx := verifChoose(2) == 1
	twoSlots := false
	var multi []Completed
	var ids []string
	if tx {
		// MULTI, two writes to one slot, EXEC — optionally followed by a plain command
		multi = append(multi, bd.Multi().Build().Pin(), bd.Set().Key("{s}1").Value("1").Build().Pin(), bd.Set().Key("{s}2").Value("2").Build().Pin(), bd.Exec().Build().Pin())
		if verifChoose(2) == 1 {
			multi = append(multi, bd.Set().Key("{s}3").Value("3").Build().Pin())
		}
	} else {
		n := 2 + verifChoose(2)
		layout := verifChoose(3)
		split := layout == 1 // the batch is split across two nodes: odd positions live on b
		twoSlots = layout == 2 // two slots of the same source node, each with its own state (one may have MOVED while the other is migrating to the same target)
		for i := 0; i < n; i++ {
			tag := "{s}"
			if (split || twoSlots) && i%2 == 1 {
				tag = "{t}"
			}
			multi = append(multi, bd.Set().Key(tag+strconv.Itoa(i)).Value(strconv.Itoa(i)).Build().Pin())
		}
	}
	// the cached slot map may have a hole for the batch's slots (failover, resharding, an
	// incomplete CLUSTER SLOTS reply): the first pick fails, the client refreshes (the refresh is
	// overridden by verifRefreshFill, which installs the slots) and picks again
	gap := verifChoose(2) == 1
	verifPendingSlots = nil
	for _, m := range multi {
		ids = append(ids, strings.Join(m.Commands(), " "))
		if s := m.Slot(); s != cmds.InitSlot {
			owner := conn(ca)
			if strings.Contains(m.Commands()[1], "{t}") && !twoSlots {
				owner = cb
			}
			if gap {
				verifPendingSlots = append(verifPendingSlots, verifSlotOwner{s, owner})
			} else {
				c.wslots[s] = owner
			}
		}
	}
	if gap {
		verifReach("gap")
	}
	results := c.DoMulti(context.Background(), multi...)
	verifAssert(len(results) == len(multi), "one result per command")
	// every command's final reply is its own
	for i, id := range ids {
		r := results[i]
		switch multi[i].Commands()[0] {
		case "MULTI":
			s, _ := r.ToString()
			verifAssert(s == "OK", "MULTI is acknowledged")
		case "EXEC":
			arr, err := r.ToArray()
			verifAssert(err == nil && len(arr) == 2, "EXEC returns the transaction's results")
			for j := range arr {
				s, _ := arr[j].ToString()
				verifAssert(strings.HasPrefix(s, "done:"+ids[1+j]+"@"), "EXEC element j is the reply to the j-th queued command")
			}
		default:
			s, err := r.ToString()
			if tx && i < 4 {
				verifAssert(err == nil && s == "QUEUED", "commands inside the transaction are queued")
			} else {
				verifAssert(err == nil && strings.HasPrefix(s, "done:"+id+"@"), "result i is the final reply to command i")
			}
		}
	}
	// node logs: transactions are contiguous, complete, on one node, re-sent whole; ASKING precedes each asked unit
	for _, n := range []*verifNodeSim{a, b} {
		in := false
		for i, e := range n.log {
			switch {
			case e == "MULTI":
				verifAssert(!in, "no nested MULTI")
				in = true
			case e == "EXEC":
				verifAssert(in, "EXEC closes a MULTI on the same node")
				in = false
			case strings.HasPrefix(e, "SET {s}1") || strings.HasPrefix(e, "SET {s}2"):
				if tx {
					verifAssert(in, "a command of a transaction is never sent outside its MULTI...EXEC block")
				}
			}
			_ = i
		}
		verifAssert(!in, "every MULTI block is complete on the node that received it")
	}
	moved := false
	for _, f := range a.fate {
		if f != 0 {
			moved = true
		}
	}
	if moved {
		verifAssert(len(b.log) > 0, "redirected commands reach the named node")
		for id, f := range a.fate {
			if f == 2 { // ASK: the unit containing id is preceded by ASKING on b
				k := -1
				for i, e := range b.log {
					if e == id {
						k = i
					}
				}
				verifAssert(k >= 0, "an ASK-redirected command reaches the named node")
				j := k - 1
				for j >= 0 && b.log[j] != "ASKING" && (tx && (b.log[j] == "MULTI" || strings.HasPrefix(b.log[j], "SET {s}"))) {
					j--
				}
				verifAssert(j >= 0 && b.log[j] == "ASKING", "ASKING precedes an ASK-redirected unit")
			}
		}
		verifReach("redirected")
	}
	if tx {
		verifReach("tx")
	}
	verifReach("done")
}
