package rueidis

import (
	"bufio"
	"strings"
)

// C14: commands are written as RESP arrays that decode to the same argv.

type verifSink struct{ b []byte }

func (s *verifSink) Write(p []byte) (int, error) { s.b = append(s.b, p...); return len(p), nil }

var verifLens = []int{0, 1, 9, 10, 11, 99, 100, 101, 999, 1000, 1001, 9999, 10000, 10001, 99999, 100000, 100001}

// verifSymString: n bytes; fully symbolic up to 12 bytes, else symbolic at both ends (the
// framing depends on the length only; the content is moved, not inspected).
func verifSymString(n int) string {
	if n <= 12 {
		return verifNondetString(n)
	}
	return verifNondetString(3) + strings.Repeat("m", n-6) + verifNondetString(3)
}

// verifRefNum parses "<digits>\r\n" at b[i:], independent of the code under test.
func verifRefNum(b []byte, i int) (n int, next int, ok bool) {
	start := i
	for i < len(b) && b[i] >= '0' && b[i] <= '9' {
		n = n*10 + int(b[i]-'0')
		i++
	}
	if i == start || i+1 >= len(b) || b[i] != '\r' || b[i+1] != '\n' {
		return 0, 0, false
	}
	return n, i + 2, true
}

// verifRefCmd decodes one command frame "*N\r\n($len\r\n<bytes>\r\n)*" starting at i.
func verifRefCmd(b []byte, i int) (argv [][]byte, next int, ok bool) {
	if i >= len(b) || b[i] != '*' {
		return nil, 0, false
	}
	n, i, ok := verifRefNum(b, i+1)
	if !ok {
		return nil, 0, false
	}
	for k := 0; k < n; k++ {
		if i >= len(b) || b[i] != '$' {
			return nil, 0, false
		}
		var l int
		if l, i, ok = verifRefNum(b, i+1); !ok {
			return nil, 0, false
		}
		if i+l+2 > len(b) || b[i+l] != '\r' || b[i+l+1] != '\n' {
			return nil, 0, false
		}
		argv = append(argv, b[i:i+l])
		i += l + 2
	}
	return argv, i, true
}

func verifSameArgv(got [][]byte, want []string) {
	verifAssert(len(got) == len(want), "decoded arity equals argv length")
	for i := range want {
		verifAssert(len(got[i]) == len(want[i]), "decoded argument length")
		for j := 0; j < len(want[i]); j++ {
			if got[i][j] != want[i][j] {
				verifFail("decoded argument bytes differ from argv")
			}
		}
	}
}

func VerifC14_writeCmd() {
	maxArgs := verifParam("max_args", 2)
	nLens := verifParam("n_lens", 8)
	n := verifChoose(maxArgs + 1)
	argv := make([]string, n)
	for i := range argv {
		argv[i] = verifSymString(verifLens[verifChoose(nLens)])
	}
	second := []string{verifNondetString(2), verifSymString(verifLens[verifChoose(4)])}
	sink := &verifSink{}
	w := bufio.NewWriterSize(sink, []int{16, 64, 4096}[verifChoose(3)])
	err1 := writeCmd(w, argv)
	err2 := flushCmd(w, second)
	verifAssert(err1 == nil && err2 == nil, "no write error on a healthy writer")
	got, next, ok := verifRefCmd(sink.b, 0)
	verifAssert(ok, "first frame is a well-formed array of bulk strings")
	verifSameArgv(got, argv)
	got2, end, ok2 := verifRefCmd(sink.b, next)
	verifAssert(ok2, "second frame is well-formed and starts where the first ends")
	verifSameArgv(got2, second)
	verifAssert(end == len(sink.b), "no stray bytes")
	verifReach("decoded")
}

// VerifC14_arity: array header digits across decimal boundaries (arguments mostly empty).
func VerifC14_arity() {
	counts := []int{9, 10, 11, 99, 100, 101, 999, 1000, 1001}
	n := counts[verifChoose(verifParam("n_counts", 6))]
	argv := make([]string, n)
	argv[verifChoose(2)*(n-1)] = verifNondetString(2)
	sink := &verifSink{}
	w := bufio.NewWriterSize(sink, 64)
	verifAssert(flushCmd(w, argv) == nil, "no error")
	got, end, ok := verifRefCmd(sink.b, 0)
	verifAssert(ok && end == len(sink.b), "well-formed")
	verifSameArgv(got, argv)
	verifReach("arity")
}

// VerifC14_writeN: the decimal header for every n in [lo, lo+span) around each power of ten.
func VerifC14_writeN() {
	pows := []int{10, 100, 1000, 10000, 100000, 1000000, 10000000, 100000000, 1000000000,
		10000000000, 100000000000, 1000000000000, 10000000000000, 100000000000000}
	p := pows[verifChoose(verifParam("n_pows", 14))]
	n := p - 2 + verifChoose(5)
	sink := &verifSink{}
	w := bufio.NewWriterSize(sink, 64)
	_ = writeN(w, '$', n)
	_ = w.Flush()
	verifAssert(len(sink.b) > 3 && sink.b[0] == '$', "type byte")
	got, end, ok := verifRefNum(sink.b, 1)
	verifAssert(ok && end == len(sink.b) && got == n, "writeN prints n in decimal followed by CRLF")
	verifReach("writeN")
}
