package rueidis

import (
	"context"
	"strings"
	"time"

	"github.com/redis/rueidis/internal/cmds"
)

// C33 (second sentence): a command is never modified or recycled before it has been completely
// written, even when the caller abandons the call. A client-side-caching MGET (the pipe builds its
// own CLIENT CACHING / MULTI / PTTL... / MGET / EXEC batch from pooled commands) is abandoned by a
// context that is cancelled at an arbitrary scheduling point; afterwards another caller builds
// and sends a command (which takes command objects from the same pool). The scripted server checks
// what actually arrives on the wire.
func VerifC33_abandon() {
	conn := newVerifConn()
	p := verifNewPipe(conn, verifChoose(2) == 1)
	p.optIn = true
	server := &verifCSCServer{srv: newVerifServer(conn), gens: map[string]int{}, pttl: -1}
	verifGo("server", server.run)
	p.background()
	ctx, cancel := context.WithCancel(context.Background())
	verifGo("cancel", func() { cancel() })
	b := cmds.NewBuilder(cmds.NoSlot)
	mget := Cacheable(b.Mget().Key("k1", "k2").Cache())
	r := p.DoCache(ctx, mget, time.Minute)
	if r.Error() == nil {
		vs, err := r.ToArray()
		verifAssert(err == nil && len(vs) == 2, "a completed MGET returns one value per key")
		verifReach("completed")
	} else {
		verifReach("abandoned")
	}
	// another caller: its command is built from the same pool
	other := b.Set().Key("other").Value("value").Build()
	s, err := p.Do(context.Background(), other).ToString()
	verifAssert(err == nil && s == "OK", "the next caller's command is served")
	verifSettle()
	// what the server received: only intact commands, transactions contiguous and complete
	want := []string{"PTTL k1", "PTTL k2", "MGET k1 k2", "EXEC"}
	inTx := -1
	for _, argv := range server.srv.log {
		line := strings.Join(argv, " ")
		if inTx >= 0 {
			verifAssert(line == want[inTx], "a command of an abandoned call still reaches the server exactly as it was built")
			inTx++
			if inTx == len(want) {
				inTx = -1
			}
			continue
		}
		switch line {
		case "MULTI":
			inTx = 0
		case "CLIENT CACHING YES", "SET other value", "PING":
		default:
			verifFail("the server received a command nobody built: [" + line + "]")
		}
	}
	verifAssert(inTx == -1, "a transaction that was started is written completely")
	p.Close()
	verifReach("done")
}
