package rueidis

import (
	"context"
	"strconv"
	"time"

	"github.com/redis/rueidis/internal/cmds"
)

// C19 (redirects), C28/C03 (cluster layer): MOVED re-sends to the named node, ASK to the named
// node preceded by ASKING, the final reply is returned, redirects are capped when configured,
// retries follow the policy, non-retryable commands run at most once.

func verifLazyRefreshStub(c *clusterClient) {} // override of (*clusterClient).lazyRefresh: topology refresh is exercised separately

type verifSend struct {
	node string
	cmds []string // first token of each command in the send
}

const (
	vcOK = iota
	vcMovedB
	vcMovedC // a node the client does not know yet
	vcAskB
	vcAskC // ASK naming a node the client does not know yet (a freshly added importing node)
	vcTryAgain
	vcLoading
	vcClusterDown
	vcTransport
	vcExpired
	vcErrReply
	vcN
)

func VerifC19_redirect() {
	var trace []verifSend
	var outs []int
	execs := 0
	maxHops := verifParam("max_hops", 4)
	conns := map[string]*verifStubConn{}
	mk := func(addr string) *verifStubConn {
		sc := &verifStubConn{addr: addr}
		reply := func(asked bool) RedisResult {
			out := vcOK
			if len(outs) < maxHops-1 {
				out = verifChoose(vcN)
			}
			outs = append(outs, out)
			switch out {
			case vcOK:
				execs++
				return NewResult(strmsg(typeSimpleString, "done@"+addr), nil)
			case vcMovedB:
				return verifErrReply("MOVED 42 b:1")
			case vcMovedC:
				return verifErrReply("MOVED 42 c:1")
			case vcAskB:
				return verifErrReply("ASK 42 b:1")
			case vcAskC:
				return verifErrReply("ASK 42 c:1")
			case vcTryAgain:
				return verifErrReply("TRYAGAIN Multiple keys request during rehashing of slot")
			case vcLoading:
				return verifErrReply("LOADING Redis is loading the dataset in memory")
			case vcClusterDown:
				return verifErrReply("CLUSTERDOWN The cluster is down")
			case vcTransport:
				if verifChoose(2) == 1 {
					execs++
				}
				return NewErrorResult(verifErrPage)
			case vcExpired:
				return NewErrorResult(errConnExpired)
			default:
				execs++
				return verifErrReply("ERR wrong type")
			}
		}
		sc.do = func(ctx context.Context, cmd Completed) RedisResult {
			trace = append(trace, verifSend{addr, []string{cmd.Commands()[0]}})
			return reply(false)
		}
		sc.doMulti = func(ctx context.Context, multi []Completed) []RedisResult {
			s := verifSend{node: addr}
			for _, c := range multi {
				s.cmds = append(s.cmds, c.Commands()[0])
			}
			trace = append(trace, s)
			rs := make([]RedisResult, len(multi))
			rs[0] = NewResult(strmsg(typeSimpleString, "OK"), nil)
			rs[len(multi)-1] = reply(true)
			return rs
		}
		conns[addr] = sc
		return sc
	}
	maxRedirects := verifChoose(3) // 0 = unlimited
	retryOn := verifChoose(2) == 1
	delays := []time.Duration{-1, 0}
	delayIdx := verifChoose(2)
	opt := &ClientOption{}
	opt.ClusterOption.MaxMovedRedirections = maxRedirects
	c := &clusterClient{
		cmd:          cmds.NewBuilder(cmds.InitSlot),
		connFn:       func(addr string, _ *ClientOption) conn { return mk(addr) },
		opt:          opt,
		conns:        map[string]connrole{},
		retry:        retryOn,
		retryHandler: newRetryer(func(int, Completed, error) time.Duration { return delays[delayIdx] }),
		stopCh:       make(chan struct{}),
	}
	c.conns["a:1"] = connrole{conn: mk("a:1")}
	c.conns["b:1"] = connrole{conn: mk("b:1")}
	write := verifChoose(2) == 0
	var cmd Completed
	if write {
		cmd = c.B().Incr().Key("k").Build().Pin()
	} else {
		cmd = c.B().Get().Key("k").Build().Pin()
	}
	slot := cmd.Slot()
	c.wslots[slot] = conns["a:1"]
	resp := c.Do(context.Background(), cmd)

	// replay the trace against the redirect rules
	n := len(outs)
	verifAssert(len(trace) == n && n >= 1, "one send per attempt")
	verifAssert(trace[0].node == "a:1" && len(trace[0].cmds) == 1, "the first send goes to the node owning the slot")
	redirects := 0
	owner := "a:1" // where the slot table points: updated when MOVED creates a connection to a new node
	knownC := false  // a connection to c:1 exists already (created by an earlier ASK or MOVED)
	for i := 1; i < n; i++ {
		prev, cur := outs[i-1], trace[i]
		switch prev {
		case vcMovedB, vcMovedC:
			redirects++
			want := "b:1"
			if prev == vcMovedC {
				want = "c:1"
			}
			verifAssert(cur.node == want && len(cur.cmds) == 1, "after MOVED the command is re-sent, alone, to the named node")
			if prev == vcMovedC {
				if !knownC {
					owner = "c:1" // MOVED to a node the client had no connection to: the slot moves with it
				}
				knownC = true
			}
			verifReach("moved")
		case vcAskB, vcAskC:
			redirects++
			want := "b:1"
			if prev == vcAskC {
				want = "c:1"
			}
			verifAssert(cur.node == want && len(cur.cmds) == 2 && cur.cmds[0] == "ASKING", "after ASK the command is re-sent to the named node preceded by ASKING")
			if prev == vcAskC {
				knownC = true
			}
			// an ASK is a one-off redirect: the slot stays with its owner
			verifReach("asked")
		case vcExpired:
			verifAssert(cur.node == trace[i-1].node, "after a connection-lifetime expiry the same step is repeated on the same node")
		case vcTryAgain, vcLoading, vcClusterDown, vcTransport:
			verifAssert(retryOn && !write && delays[delayIdx] >= 0, "TRYAGAIN/LOADING/CLUSTERDOWN/transport errors are retried only for retryable commands, with retries enabled and a non-negative delay")
			verifAssert(cur.node == owner && len(cur.cmds) == 1, "a retry goes to the node the slot table points to")
			verifReach("retried")
		default:
			verifFail("a re-send after a reply that allows none")
		}
		if maxRedirects > 0 {
			verifAssert(redirects <= maxRedirects, "at most MaxMovedRedirections redirects")
		}
	}
	if outs[n-1] == vcOK {
		s, err := resp.ToString()
		verifAssert(err == nil && s == "done@"+trace[n-1].node, "the final reply is returned")
	} else {
		verifAssert(resp.Error() != nil, "the last error is returned")
	}
	verifAssert(c.wslots[slot] != nil && c.wslots[slot].Addr() == owner, "the slot table points to the slot's owner: only MOVED (never ASK) moves a slot")
	if outs[n-1] == vcMovedC || (n >= 2 && outs[n-2] == vcMovedC) {
		_, known := c.conns["c:1"]
		verifAssert(known || (maxRedirects > 0 && redirects >= maxRedirects), "a node named by MOVED becomes known")
	}
	if write {
		verifAssert(execs <= 1, "a command that is neither read-only nor retryable is executed at most once")
	}
	_ = strconv.Itoa
	verifReach("done")
}

// ---- topology ----

type verifNode struct {
	host   string // endpoint as the server reports it ("" = unknown to itself, "?" = unresolvable)
	port   int64
	master bool
	health string
}

type verifShard struct {
	ranges [][2]int64
	nodes  []verifNode // primary first in the model
}

func verifIntMsg(n int64) RedisMessage { return RedisMessage{typ: typeInteger, intlen: n} }

// CLUSTER SLOTS encoding: [lo, hi, [host, port, id], [host, port, id]...]
func verifSlotsReply(shards []verifShard) RedisMessage {
	var out []RedisMessage
	for _, sh := range shards {
		for _, r := range sh.ranges {
			entry := []RedisMessage{verifIntMsg(r[0]), verifIntMsg(r[1])}
			for _, n := range sh.nodes {
				entry = append(entry, slicemsg(typeArray, []RedisMessage{strmsg(typeBlobString, n.host), verifIntMsg(n.port), strmsg(typeBlobString, "id")}))
			}
			out = append(out, slicemsg(typeArray, entry))
		}
	}
	return slicemsg(typeArray, out)
}

// CLUSTER SHARDS encoding: [{slots: [lo,hi,...], nodes: [{endpoint, port, role, health}...]}...]
// nodes are listed replicas first, so that the primary has to be found by its role.
func verifShardsReply(shards []verifShard) RedisMessage {
	var out []RedisMessage
	for _, sh := range shards {
		var slots []RedisMessage
		for _, r := range sh.ranges {
			slots = append(slots, verifIntMsg(r[0]), verifIntMsg(r[1]))
		}
		var ns []RedisMessage
		for i := len(sh.nodes) - 1; i >= 0; i-- {
			n := sh.nodes[i]
			role := "replica"
			if n.master {
				role = "master"
			}
			ns = append(ns, slicemsg(typeMap, []RedisMessage{
				strmsg(typeBlobString, "endpoint"), strmsg(typeBlobString, n.host),
				strmsg(typeBlobString, "port"), verifIntMsg(n.port),
				strmsg(typeBlobString, "role"), strmsg(typeBlobString, role),
				strmsg(typeBlobString, "health"), strmsg(typeBlobString, n.health),
			}))
		}
		out = append(out, slicemsg(typeMap, []RedisMessage{
			strmsg(typeBlobString, "slots"), slicemsg(typeArray, slots),
			strmsg(typeBlobString, "nodes"), slicemsg(typeArray, ns),
		}))
	}
	return slicemsg(typeArray, out)
}

// VerifC19_topology: the real _refresh on a model topology: every probed slot is owned by the
// primary of the group whose range contains it, slots outside every range have no owner.
func VerifC19_topology() {
	x := []int64{0, 5460, 16382}[verifChoose(3)]
	shardsV := verifChoose(2) == 1
	a := verifShard{ranges: [][2]int64{{0, x}}, nodes: []verifNode{{"a", 1, true, "online"}}}
	b := verifShard{ranges: [][2]int64{{x + 1, 16383}}, nodes: []verifNode{{"b", 1, true, "online"}}}
	gap := verifChoose(2) == 1
	if gap && x >= 100 {
		a.ranges = [][2]int64{{0, 10}, {50, x}} // two ranges for one group; 11..49 unassigned
	}
	switch verifChoose(4) {
	case 1:
		a.nodes = append(a.nodes, verifNode{"a2", 2, false, "online"})
	case 2:
		b.nodes = append(b.nodes, verifNode{"?", 2, false, "online"}) // unresolvable replica: skipped
	case 3:
		if shardsV {
			a.nodes = append(a.nodes, verifNode{"a3", 3, false, "fail"}) // unhealthy replica: skipped
		}
	}
	selfUnknown := verifChoose(2) == 1
	if selfUnknown {
		a.nodes[0].host = "" // the answering node does not know its own address: fall back to the address we dialled
	}
	model := []verifShard{a, b}
	var reply RedisMessage
	ver := 7
	if shardsV {
		reply, ver = verifShardsReply(model), 8
	} else {
		reply = verifSlotsReply(model)
	}
	conns := map[string]*verifStubConn{}
	mk := func(addr string) *verifStubConn {
		if c, ok := conns[addr]; ok {
			return c
		}
		sc := &verifStubConn{addr: addr, version: ver}
		sc.do = func(ctx context.Context, cmd Completed) RedisResult { return NewResult(reply, nil) }
		conns[addr] = sc
		return sc
	}
	opt := &ClientOption{InitAddress: []string{"a:1"}}
	c := &clusterClient{
		cmd:    cmds.NewBuilder(cmds.InitSlot),
		connFn: func(addr string, _ *ClientOption) conn { return mk(addr) },
		opt:    opt, conns: map[string]connrole{}, stopCh: make(chan struct{}),
		retryHandler: newRetryer(defaultRetryDelayFn),
	}
	first := mk("a:1")
	c.conns["a:1"] = connrole{conn: first}
	_ = ver
	err := c._refresh()
	verifAssert(err == nil, "refresh succeeds on a well-formed topology")
	owner := func(s int64) string {
		for _, sh := range model {
			for _, r := range sh.ranges {
				if s >= r[0] && s <= r[1] {
					if sh.nodes[0].host == "" {
						return "a:1"
					}
					return sh.nodes[0].host + ":" + strconv.FormatInt(sh.nodes[0].port, 10)
				}
			}
		}
		return ""
	}
	for _, s := range []int64{0, 10, 11, 49, 50, x, x + 1, 16383} {
		if s < 0 || s > 16383 {
			continue
		}
		w := c.wslots[s]
		want := owner(s)
		if want == "" {
			verifAssert(w == nil, "a slot outside every listed range has no owner")
			verifReach("unowned")
		} else {
			verifAssert(w != nil && w.Addr() == want, "each slot is owned by the primary of the group whose range lists it")
		}
	}
	_, hasQ := c.conns["?:2"]
	_, hasFail := c.conns["a3:3"]
	verifAssert(!hasQ && !hasFail, "unresolvable and unhealthy nodes are not connected to")
	verifReach("refreshed")
}
