package rueidis

import (
	"bufio"
	"io"
	"strconv"
)

// C12 / C13: RESP decoding. A generator draws a frame description, emits the wire bytes and
// the expected value tree; the real readNextMessage decodes the bytes served in chunks.

// verifChunks serves data with a nondeterministically chosen chunking.
type verifChunks struct {
	data  []byte
	pos   int
	mode  int // 0: as much as fits, 1: one byte per Read, 2: one split at `split`
	split int
	reads int
}

func (r *verifChunks) Read(p []byte) (int, error) {
	r.reads++
	if r.pos >= len(r.data) {
		return 0, io.EOF
	}
	n := len(r.data) - r.pos
	if n > len(p) {
		n = len(p)
	}
	switch r.mode {
	case 1:
		n = 1
	case 2:
		if r.pos < r.split && r.pos+n > r.split {
			n = r.split - r.pos
		}
	case 3:
		if n > 65536 {
			n = 65536
		}
	}
	copy(p, r.data[r.pos:r.pos+n])
	r.pos += n
	return n, nil
}

func verifNewChunks(data []byte, allSplits bool) *verifChunks {
	r := &verifChunks{data: data}
	r.mode = verifChoose(3)
	if r.mode == 2 {
		if len(data) < 2 {
			r.mode = 0
		} else if allSplits {
			r.split = 1 + verifChoose(len(data)-1)
		} else {
			cands := []int{1, 2, len(data) / 2, len(data) - 1}
			r.split = cands[verifChoose(len(cands))]
		}
	}
	return r
}

type verifGen struct {
	out      []byte
	strlens  []int
	digits   []int
	width    int
	streamed bool
	attrs    bool
}

var verifRespStr = []byte{typeBlobString, typeSimpleString, typeSimpleErr, typeFloat, typeBlobErr, typeVerbatimString, typeBigNumber}
var verifRespAgg = []byte{typeArray, typeMap, typeSet, typePush}

func (g *verifGen) crlf() { g.out = append(g.out, '\r', '\n') }

func (g *verifGen) num(n int) {
	g.out = append(g.out, strconv.Itoa(n)...)
	g.crlf()
}

// line emits n symbolic bytes that are a legal simple-string body (no CR, no LF).
func (g *verifGen) line(n int) string {
	b := verifNondetBytes(n)
	for _, c := range b {
		verifAssume(c != '\n' && c != '\r')
	}
	g.out = append(g.out, b...)
	g.crlf()
	return string(b)
}

// frame emits one well-formed frame and returns the value it encodes.
func (g *verifGen) frame(depth int, top bool) verifTree {
	var attr []verifTree
	if g.attrs && top && verifChoose(2) == 0 {
		// attribute frame: |1 key value, folded into the next value's attrs
		g.out = append(g.out, typeAttribute)
		g.num(1)
		g.out = append(g.out, typeSimpleString)
		k := verifTree{typ: typeSimpleString, s: g.line(1)}
		attr = []verifTree{k, g.tiny()}
	}
	t := g.frame1(depth, top)
	t.attr = attr
	return t
}

// tiny: two-kind menu for the non-first children of an aggregate.
func (g *verifGen) tiny() verifTree {
	if verifChoose(2) == 0 {
		g.out = append(g.out, typeBlobString)
		g.num(2)
		b := verifNondetBytes(2)
		g.out = append(g.out, b...)
		g.crlf()
		return verifTree{typ: typeBlobString, s: string(b)}
	}
	g.out = append(g.out, '*', '-', '1', '\r', '\n')
	return verifTree{typ: typeNull, null: true}
}

// kid: child i of an aggregate.
func (g *verifGen) kid(i, depth int) verifTree {
	if i == 0 {
		return g.small(depth)
	}
	return g.tiny()
}

// small: the reduced menu used for nested values (children, attribute pairs).
func (g *verifGen) small(depth int) verifTree {
	switch verifChoose(6) {
	case 0:
		n := 2 * verifChoose(2)
		g.out = append(g.out, typeBlobString)
		g.num(n)
		b := verifNondetBytes(n)
		g.out = append(g.out, b...)
		g.crlf()
		return verifTree{typ: typeBlobString, s: string(b)}
	case 1:
		g.out = append(g.out, typeInteger)
		neg := verifNondetBool()
		if neg {
			g.out = append(g.out, '-')
		}
		d := verifNondetByte()
		verifAssume(d >= '0' && d <= '9')
		g.out = append(g.out, d)
		g.crlf()
		v := int64(d - '0')
		if neg {
			v = -v
		}
		return verifTree{typ: typeInteger, n: v}
	case 2:
		if verifChoose(2) == 0 {
			g.out = append(g.out, '_', '\r', '\n')
		} else {
			g.out = append(g.out, '$', '-', '1', '\r', '\n')
		}
		return verifTree{typ: typeNull, null: true}
	case 3:
		g.out = append(g.out, '+', 'O', 'K', '\r', '\n')
		return verifTree{typ: typeSimpleString, s: "OK"}
	case 4:
		g.out = append(g.out, typeFloat)
		return verifTree{typ: typeFloat, s: g.line(1)}
	default:
		if depth <= 0 {
			g.out = append(g.out, typeArray)
			g.num(0)
			return verifTree{typ: typeArray}
		}
		typ := verifRespAgg[verifChoose(4)]
		n := 1
		g.out = append(g.out, typ)
		g.num(n)
		if typ == typeMap {
			n *= 2
		}
		t := verifTree{typ: typ, kids: make([]verifTree, n)}
		for i := range t.kids {
			t.kids[i] = g.small(depth - 1)
		}
		return t
	}
}

func (g *verifGen) frame1(depth int, top bool) verifTree {
	if !top {
		return g.small(depth)
	}
	kinds := 8
	if depth > 0 {
		kinds = 10
	}
	switch verifChoose(kinds) {
	case 0: // blob-like: $ ! =
		typ := []byte{typeBlobString, typeBlobErr, typeVerbatimString}[verifChoose(3)]
		n := g.strlens[verifChoose(len(g.strlens))]
		g.out = append(g.out, typ)
		g.num(n)
		b := verifNondetBytes(n) // arbitrary binary payload incl. CR/LF
		g.out = append(g.out, b...)
		g.crlf()
		return verifTree{typ: typ, s: string(b)}
	case 1: // line-like: + - , (
		typ := []byte{typeSimpleString, typeSimpleErr, typeFloat, typeBigNumber}[verifChoose(4)]
		g.out = append(g.out, typ)
		n := g.strlens[verifChoose(len(g.strlens))]
		return verifTree{typ: typ, s: g.line(n)}
	case 2: // the +OK fast path
		g.out = append(g.out, '+', 'O', 'K', '\r', '\n')
		return verifTree{typ: typeSimpleString, s: "OK"}
	case 3: // integer
		g.out = append(g.out, typeInteger)
		neg := verifNondetBool()
		if neg {
			g.out = append(g.out, '-')
		}
		nd := g.digits[verifChoose(len(g.digits))]
		ds := verifNondetBytes(nd)
		var v int64
		for _, d := range ds {
			verifAssume(d >= '0' && d <= '9')
			v = v*10 + int64(d-'0')
		}
		g.out = append(g.out, ds...)
		g.crlf()
		if neg {
			v = -v
		}
		return verifTree{typ: typeInteger, n: v}
	case 4: // nulls
		switch verifChoose(3) {
		case 0:
			g.out = append(g.out, '_', '\r', '\n')
		case 1:
			g.out = append(g.out, '$', '-', '1', '\r', '\n')
		default:
			g.out = append(g.out, '*', '-', '1', '\r', '\n')
		}
		return verifTree{typ: typeNull, null: true}
	case 5: // bool
		b := verifNondetBool()
		g.out = append(g.out, typeBool)
		if b {
			g.out = append(g.out, 't')
		} else {
			g.out = append(g.out, 'f')
		}
		g.crlf()
		if b {
			return verifTree{typ: typeBool, n: 1}
		}
		return verifTree{typ: typeBool, n: 0}
	case 6: // streamed string $? ;n data ;0
		if !g.streamed {
			verifAssume(false)
		}
		g.out = append(g.out, '$', '?', '\r', '\n')
		var s []byte
		for c := verifChoose(3); c > 0; c-- {
			n := 1 + verifChoose(2)
			g.out = append(g.out, ';')
			g.num(n)
			b := verifNondetBytes(n)
			g.out = append(g.out, b...)
			g.crlf()
			s = append(s, b...)
		}
		g.out = append(g.out, ';', '0', '\r', '\n')
		return verifTree{typ: typeBlobString, s: string(s)}
	case 7: // empty aggregates
		typ := verifRespAgg[verifChoose(4)]
		g.out = append(g.out, typ)
		g.num(0)
		return verifTree{typ: typ}
	case 8: // aggregate with declared length
		typ := verifRespAgg[verifChoose(4)]
		n := 1 + verifChoose(g.width)
		g.out = append(g.out, typ)
		g.num(n)
		if typ == typeMap {
			n *= 2
		}
		t := verifTree{typ: typ, kids: make([]verifTree, n)}
		for i := range t.kids {
			t.kids[i] = g.kid(i, depth-1)
		}
		return t
	default: // streamed aggregate: *? ... .
		if !g.streamed {
			verifAssume(false)
		}
		typ := verifRespAgg[verifChoose(3)] // array, map, set
		g.out = append(g.out, typ, '?', '\r', '\n')
		n := verifChoose(g.width + 1)
		if typ == typeMap {
			n *= 2
		}
		t := verifTree{typ: typ, kids: make([]verifTree, n)}
		for i := range t.kids {
			t.kids[i] = g.kid(i, depth-1)
		}
		g.out = append(g.out, '.', '\r', '\n')
		return t
	}
}

func verifGenFromParams() *verifGen {
	g := &verifGen{strlens: []int{0, 2}, digits: []int{1, 3}, width: verifParam("width", 2)}
	if verifParam("long", 0) != 0 {
		g.strlens = []int{0, 1, 2, 5}
		g.digits = []int{1, 2, 3, 18}
	}
	g.streamed = verifParam("streamed", 1) != 0
	g.attrs = verifParam("attrs", 1) != 0
	return g
}

func verifTreeEqAttrs(m *RedisMessage, t verifTree) {
	verifTreeEq(m, t)
	if t.null {
		return
	}
	if t.attr == nil {
		verifAssert(m.attrs == nil, "no attributes invented")
	} else {
		verifAssert(m.attrs != nil, "attribute frame attached to the next value")
		verifAssert(m.attrs.typ == typeAttribute, "attribute type")
		vs := m.attrs.values()
		verifAssert(len(vs) == len(t.attr), "attribute pair count")
		for i := range t.attr {
			verifTreeEq(&vs[i], t.attr[i])
		}
	}
}

// VerifC12_decode: every well-formed frame decodes to the value it encodes, for every chunking.
func VerifC12_decode() {
	g := verifGenFromParams()
	want := g.frame(verifParam("depth", 1), true)
	// a second frame follows on the wire: the first must consume exactly its own bytes
	first := len(g.out)
	g.out = append(g.out, ':', '7', '\r', '\n')
	src := verifNewChunks(g.out, verifParam("all_splits", 0) != 0)
	// 32 bytes is the smallest read buffer the client accepts (ReadBufferEachConn < 32 falls back to
	// the default: a header line must fit, readI uses ReadSlice)
	size := []int{32, 4096}[verifChoose(2)]
	r := bufio.NewReaderSize(src, size)
	m, err := readNextMessage(r)
	verifAssert(err == nil, "well-formed frame decodes without error")
	verifTreeEqAttrs(&m, want)
	consumed := src.pos - r.Buffered()
	verifAssert(consumed == first, "decoder consumes exactly the frame's bytes")
	m2, err := readNextMessage(r)
	verifAssert(err == nil && m2.typ == typeInteger && m2.intlen == 7, "next frame decodes independently")
	verifReach("decoded")
	if want.attr != nil {
		verifReach("attrs")
	}
	if len(want.kids) > 0 {
		verifReach("nested")
	}
}

// VerifC12_stream: streamTo writes exactly the payload a normal read would return.
func VerifC12_stream() {
	g := verifGenFromParams()
	g.attrs = false
	want := g.frame(0, true)
	first := len(g.out)
	g.out = append(g.out, ':', '7', '\r', '\n')
	src := verifNewChunks(g.out, verifParam("all_splits", 0) != 0)
	r := bufio.NewReaderSize(src, 32)
	var sink verifSink
	n, err, clean := streamTo(r, &sink)
	switch {
	case want.null:
		verifAssert(err == Nil && clean, "null streams as Nil")
	case want.typ == typeSimpleErr || want.typ == typeBlobErr:
		re, isErr := err.(*RedisError)
		verifAssert(isErr && clean, "error replies surface as RedisError")
		if isErr {
			verifAssert(re.string() == want.s, "error text preserved")
		}
	case verifIsAgg(want.typ) && want.typ != typePush:
		verifAssert(err != nil, "aggregates are not streamable")
	case want.typ == typePush:
		// a push is skipped; the following :7 is streamed instead
		verifAssert(err == nil && string(sink.b) == "7", "push skipped, next reply streamed")
		verifReach("pushskip")
		return
	case verifIsStr(want.typ):
		verifAssert(err == nil && clean, "string reply streams cleanly")
		verifAssert(int(n) == len(want.s) && len(sink.b) == len(want.s), "streamed byte count equals payload length")
		for i := 0; i < len(want.s) && i < len(sink.b); i++ {
			verifAssert(sink.b[i] == want.s[i], "streamed bytes equal the payload")
		}
		verifReach("streamstr")
	case want.typ == typeInteger || want.typ == typeBool:
		verifAssert(err == nil && clean, "integer reply streams cleanly")
		v, perr := strconv.ParseInt(string(sink.b), 10, 64)
		verifAssert(perr == nil && v == want.n, "streamed decimal equals the integer")
		verifReach("streamint")
	}
	if clean && !verifIsAgg(want.typ) {
		verifAssert(src.pos-r.Buffered() == first, "streaming consumes exactly the frame's bytes")
	}
}

// VerifC13_bytes: arbitrary bytes followed by EOF: value or error, never a panic, and no
// allocation far beyond the bytes received (engine allocation oracle: alloc_is_violation).
func VerifC13_bytes() {
	n := verifParam("nbytes", 5)
	data := verifNondetBytes(n)
	r := bufio.NewReaderSize(&verifChunks{data: data}, 16)
	_, err := readNextMessage(r)
	if err == nil {
		verifReach("value")
	} else {
		verifReach("error")
	}
}

// VerifC13_lengths: structured malformed family: a length-carrying header whose declared length
// is any (wrapping) decimal of k symbolic digits with optional sign, followed by ≤ 3 arbitrary
// bytes and EOF. Declared lengths in (6, 2^21] are outside (they only differ in how long the
// reader waits for data that never comes); negative, huge and tiny ones are all covered.
func VerifC13_lengths() {
	hdr := [][]byte{{'$'}, {'!'}, {'='}, {'*'}, {'~'}, {'>'}, {'%'}, {'|'}, {'$', '?', '\r', '\n', ';'}}
	var data []byte
	data = append(data, hdr[verifChoose(len(hdr))]...)
	neg := verifNondetBool()
	if neg {
		data = append(data, '-')
	}
	ks := []int{1, 2, 19, 7, 10, 20}
	k := ks[verifChoose(verifParam("n_digit_counts", 4))]
	ds := verifNondetBytes(k)
	if k > 10 {
		// 19/20-digit lengths (2^62..2^63 and beyond, where doubling and the decimal
		// accumulation wrap): the two leading digits are symbolic, the rest is all 0 or all 9
		fill := []byte{'0', '9'}[verifChoose(2)]
		for i := 2; i < k; i++ {
			ds[i] = fill
		}
	}
	var v int64
	for _, d := range ds {
		verifAssume(d >= '0' && d <= '9')
		v = v*10 + int64(d-'0')
	}
	if neg {
		v = -v
	}
	verifAssume(v < 0 || v > 1<<21 || v <= 6)
	data = append(data, ds...)
	data = append(data, '\r', '\n')
	// what follows the header: nothing, or one/two complete null frames (arbitrary tails are
	// the subject of VerifC13_bytes)
	data = append(data, "_\r\n_\r\n"[:3*verifChoose(verifParam("max_tail", 2)+1)]...)
	r := bufio.NewReaderSize(&verifChunks{data: data}, 64)
	var err error
	if verifChoose(2) == 0 {
		_, err = readNextMessage(r)
	} else {
		var sink verifSink
		_, err, _ = streamTo(r, &sink)
	}
	if v < -1 {
		verifReach("negative")
	}
	if v > 1<<21 {
		verifReach("huge")
	}
	if err == nil {
		verifReach("value")
	}
}

// VerifC13_stream: the same for the streaming reader.
func VerifC13_stream() {
	n := verifParam("nbytes", 5)
	data := verifNondetBytes(n)
	r := bufio.NewReaderSize(&verifChunks{data: data}, 16)
	var sink verifSink
	_, err, _ := streamTo(r, &sink)
	if err == nil {
		verifReach("value")
	} else {
		verifReach("error")
	}
}

// VerifC12_bigblob: blob strings around and beyond the decoder's 1 MiB up-front allocation cap,
// delivered in pieces: the payload must be reassembled exactly. Bytes at the start, around the
// 1 MiB boundary and at the end are symbolic, the rest is a fixed filler.
func VerifC12_bigblob() {
	const cap1 = 1 << 20
	n := []int{cap1 - 1, cap1, cap1 + 1, cap1 + 1000, 2*cap1 + 7}[verifChoose(5)]
	payload := make([]byte, n)
	for i := range payload {
		payload[i] = 'f'
	}
	marks := []int{0, cap1 - 1, cap1, cap1 + 1, n - 1}
	for _, i := range marks {
		if i >= 0 && i < n {
			payload[i] = verifNondetByte()
		}
	}
	hdr := "$" + strconv.Itoa(n) + "\r\n"
	data := append([]byte(hdr), payload...)
	data = append(data, '\r', '\n', ':', '7', '\r', '\n')
	src := &verifChunks{data: data, mode: 2}
	// one split point: before, at and after the cap, and near the end; or fixed-size segments
	switch verifChoose(6) {
	case 0:
		src.mode = 0
	case 1:
		src.split = len(hdr) + cap1 - 5
	case 2:
		src.split = len(hdr) + cap1
	case 3:
		src.split = len(hdr) + cap1 + 3
	case 4:
		src.split = len(hdr) + n - 2
	default:
		src.mode = 3 // 64 KiB segments
	}
	if src.mode == 2 && src.split >= len(data) {
		src.mode = 0
	}
	r := bufio.NewReaderSize(src, 4096)
	m, err := readNextMessage(r)
	verifAssert(err == nil && m.typ == typeBlobString, "large blob decodes")
	s := m.string()
	verifAssert(len(s) == n, "large blob has its declared length")
	for _, i := range marks {
		if i >= 0 && i < n {
			verifAssert(s[i] == payload[i], "large blob bytes are reassembled at the right offsets")
		}
	}
	verifAssert(s[n/2] == 'f' && s[n-2] == payload[n-2], "filler intact")
	m2, err := readNextMessage(r)
	verifAssert(err == nil && m2.typ == typeInteger && m2.intlen == 7, "the frame after a large blob decodes independently")
	verifReach("big")
}
