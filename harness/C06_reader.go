package rueidis

import (
	"context"
	"strconv"
	"time"

	"github.com/redis/rueidis/internal/cmds"
)

// C06 / C27: a scripted server answers client-side-caching transactions and interleaves
// invalidation pushes; the real pipe (reader commit branch, handlePush, cache store) runs.

func verifInvalPush(keys []string) string {
	if keys == nil {
		return ">2\r\n$10\r\ninvalidate\r\n_\r\n"
	}
	s := ">2\r\n$10\r\ninvalidate\r\n*" + strconv.Itoa(len(keys)) + "\r\n"
	for _, k := range keys {
		s += "$" + strconv.Itoa(len(k)) + "\r\n" + k + "\r\n"
	}
	return s
}

type verifCSCServer struct {
	srv     *verifServer
	version int              // value generation per key: the server's current value of key k is "k:<gen>"
	gens    map[string]int   // per key
	pending []string         // pushes to send before the next PONG
	pttl    int64
}

func (s *verifCSCServer) value(k string) string { return k + ":" + strconv.Itoa(s.gens[k]) }

func (s *verifCSCServer) run() {
	verifDaemon()
	var queued [][]string
	inMulti := false
	for {
		argv, ok := s.srv.next()
		if !ok {
			return
		}
		switch argv[0] {
		case "CLIENT", "MULTI":
			if argv[0] == "MULTI" {
				inMulti = true
				queued = nil
			}
			s.srv.send("+OK\r\n")
		case "EXEC":
			inMulti = false
			out := "*" + strconv.Itoa(len(queued)) + "\r\n"
			for _, q := range queued {
				out += s.reply(q)
			}
			s.srv.send(out)
		case "PING":
			for _, p := range s.pending {
				s.srv.send(p)
			}
			s.pending = nil
			s.srv.send("+PONG\r\n")
		default:
			if inMulti {
				queued = append(queued, argv)
				s.srv.send("+QUEUED\r\n")
			} else {
				s.srv.send(s.reply(argv))
			}
		}
	}
}

func (s *verifCSCServer) reply(argv []string) string {
	switch argv[0] {
	case "PTTL":
		return ":" + strconv.FormatInt(s.pttl, 10) + "\r\n"
	case "GET":
		v := s.value(argv[1])
		return "$" + strconv.Itoa(len(v)) + "\r\n" + v + "\r\n"
	case "MGET":
		out := "*" + strconv.Itoa(len(argv)-1) + "\r\n"
		for _, k := range argv[1:] {
			v := s.value(k)
			out += "$" + strconv.Itoa(len(v)) + "\r\n" + v + "\r\n"
		}
		return out
	}
	return "+OK\r\n"
}

func verifGetCache(k string) Cacheable {
	return Cacheable(cmds.NewBuilder(cmds.NoSlot).Get().Key(k).Cache())
}

// VerifC06_pipe: read k (miss), read again (hit), another client writes k / other key / flush
// (the server bumps the value and emits the invalidation before the next reply), read again.
func VerifC06_pipe() {
	conn := newVerifConn()
	p := verifNewPipe(conn, verifChoose(2) == 1)
	p.optIn = verifChoose(2) == 1 // opt-in vs opt-out/broadcast tracking (OptInNopCmd)
	var invLog [][]string
	p.onInvalidations = func(ms []RedisMessage) {
		if ms == nil {
			invLog = append(invLog, nil)
			return
		}
		ks := []string{}
		for _, m := range ms {
			ks = append(ks, m.string())
		}
		invLog = append(invLog, ks)
	}
	// a per-connection callback (what DedicatedClient.SetOnInvalidations installs) may be set as well:
	// both observe every push
	var invLog2 [][]string
	both := verifChoose(2) == 1
	if both {
		p.SetPubSubHooks(PubSubHooks{onInvalidations: func(ms []RedisMessage) {
			if ms == nil {
				invLog2 = append(invLog2, nil)
				return
			}
			ks := []string{}
			for _, m := range ms {
				ks = append(ks, m.string())
			}
			invLog2 = append(invLog2, ks)
		}})
		verifReach("bothcallbacks")
	}
	server := &verifCSCServer{srv: newVerifServer(conn), gens: map[string]int{}, pttl: []int64{-1, 60000}[verifChoose(2)]}
	verifGo("server", server.run)
	p.background()
	ctx := context.Background()
	static := verifChoose(2) == 1
	get := func(k string) RedisResult {
		c := verifGetCache(k)
		if static {
			c = c.ToStaticTTL()
		}
		return p.DoCache(ctx, c, time.Minute)
	}
	r1 := get("a")
	s1, err := r1.ToString()
	verifAssert(err == nil && s1 == "a:0" && !r1.IsCacheHit(), "first read is served by the server")
	r2 := get("a")
	s2, _ := r2.ToString()
	verifAssert(r2.IsCacheHit() && s2 == "a:0", "second read is a hit with the reply the server sent for that command")
	// another client changes something: the server sends the invalidation before its next reply
	var wantLog [][]string
	kind := verifChoose(4)
	switch kind {
	case 0:
		server.gens["a"]++
		server.pending = append(server.pending, verifInvalPush([]string{"a"}))
		wantLog = append(wantLog, []string{"a"})
	case 1:
		server.gens["b"]++
		server.pending = append(server.pending, verifInvalPush([]string{"b"}))
		wantLog = append(wantLog, []string{"b"})
	case 2:
		server.gens["a"]++
		server.gens["b"]++
		server.pending = append(server.pending, verifInvalPush(nil))
		wantLog = append(wantLog, nil)
	default:
		server.gens["a"]++
		server.gens["b"]++
		server.pending = append(server.pending, verifInvalPush([]string{"b", "a"}))
		wantLog = append(wantLog, []string{"b", "a"})
	}
	pong, _ := p.Do(ctx, cmds.PingCmd).ToString()
	verifAssert(pong == "PONG", "regular command keeps its own reply next to pushes")
	// the invalidation has been processed: a read started now must not return the stale reply
	r3 := get("a")
	s3, _ := r3.ToString()
	if kind == 1 {
		verifAssert(r3.IsCacheHit() && s3 == "a:0", "an invalidation of another key leaves the entry")
		verifReach("kept")
	} else {
		verifAssert(!r3.IsCacheHit(), "no hit is served after the key's invalidation was processed")
		verifAssert(s3 == "a:1", "the read after an invalidation returns the server's current value")
		verifReach("refetched")
	}
	// callbacks saw exactly the pushes, in order
	verifAssert(len(invLog) == len(wantLog), "one callback per invalidation push")
	for i := range wantLog {
		verifAssert(len(invLog[i]) == len(wantLog[i]) && (invLog[i] == nil) == (wantLog[i] == nil), "callback receives the push's keys (nil for a flush)")
		for j := range wantLog[i] {
			verifAssert(invLog[i][j] == wantLog[i][j], "callback keys in wire order")
		}
	}
	if both {
		verifAssert(len(invLog2) == len(wantLog), "the per-connection callback sees one call per invalidation push as well")
		for i := range wantLog {
			verifAssert(len(invLog2[i]) == len(wantLog[i]) && (invLog2[i] == nil) == (wantLog[i] == nil), "the per-connection callback receives the push's keys (nil for a flush)")
			for j := range wantLog[i] {
				verifAssert(invLog2[i][j] == wantLog[i][j], "per-connection callback keys in wire order")
			}
		}
	}
	// connection loss: one more nil, and nothing cached survives
	p.Close()
	verifSettle()
	verifAssert(len(invLog) == len(wantLog)+1 && invLog[len(invLog)-1] == nil, "the callback receives nil once more when the connection is lost")
	v, e := p.cache.Flight("a", "GET", time.Minute, time.Now())
	verifAssert(v.typ == 0 && e == nil, "nothing is served from the cache after the connection is lost")
	verifReach("done")
}
