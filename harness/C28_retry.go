package rueidis

import (
	"context"
	"time"

	"github.com/redis/rueidis/internal/cmds"
)

// C28 / C03 (client layer): retries happen only when safe and within policy; a command that is
// neither read-only nor retryable is executed at most once per call.

const (
	verifOutOK = iota
	verifOutNil
	verifOutErrReply
	verifOutLoading
	verifOutMoved      // an ordinary error reply for non-cluster clients
	verifOutTransport  // executed or not: unknown to the client
	verifOutExpired    // errConnExpired: by contract not executed
	verifOutCtx        // the context ended during the attempt
	verifNOutcomes
)

// verifAttempt produces the reply of one attempt; executed says whether the server ran it.
func verifAttempt(out int, cancel context.CancelFunc) (r RedisResult, executed bool) {
	switch out {
	case verifOutOK:
		return NewResult(strmsg(typeSimpleString, "OK"), nil), true
	case verifOutNil:
		return NewResult(RedisMessage{typ: typeNull}, nil), true
	case verifOutErrReply:
		return verifErrReply("ERR wrong type"), true
	case verifOutLoading:
		return verifErrReply("LOADING Redis is loading the dataset in memory"), false
	case verifOutMoved:
		return verifErrReply("MOVED 1 h:1"), false
	case verifOutTransport:
		return NewErrorResult(verifErrPage), verifChoose(2) == 1
	case verifOutExpired:
		return NewErrorResult(errConnExpired), false
	default:
		cancel()
		return NewErrorResult(context.Canceled), verifChoose(2) == 1
	}
}

func VerifC28_single() {
	ctx, cancel := context.WithCancel(context.Background())
	defer cancel()
	sc := &verifStubConn{}
	retryOn := verifChoose(2) == 1
	delays := []time.Duration{-1, 0, time.Millisecond}
	delayIdx := verifChoose(3)
	delayCalls := 0
	rt := newRetryer(func(attempts int, cmd Completed, err error) time.Duration {
		delayCalls++
		return delays[delayIdx]
	})
	client := newSingleClientWithConn(sc, cmds.NewBuilder(cmds.NoSlot), retryOn, false, rt, true)
	kind := verifChoose(3) // 0 write, 1 read-only, 2 write marked retryable
	var cmd Completed
	switch kind {
	case 0:
		cmd = client.B().Incr().Key("k").Build()
	case 1:
		cmd = client.B().Get().Key("k").Build()
	default:
		cmd = client.B().Incr().Key("k").Build().ToRetryable()
	}
	cmd = cmd.Pin() // keep the command inspectable after the call
	maxAttempts := verifParam("max_attempts", 3)
	var outs []int
	execs := 0
	closedAt := -1
	sc.do = func(c context.Context, _ Completed) RedisResult {
		out := verifOutOK
		if len(outs) < maxAttempts-1 {
			out = verifChoose(verifNOutcomes)
		}
		outs = append(outs, out)
		r, ex := verifAttempt(out, cancel)
		if ex {
			execs++
		}
		if closedAt < 0 && verifChoose(3) == 0 {
			closedAt = len(outs)
			client.Close() // the client is closed while the attempt is in flight
		}
		return r
	}
	resp := client.Do(ctx, cmd)
	n := len(outs)
	verifAssert(n >= 1, "the command is sent")
	for i := 1; i < n; i++ {
		prev := outs[i-1]
		if prev == verifOutExpired {
			continue // re-send after a connection-lifetime expiry: the command was not executed
		}
		allowedErr := prev == verifOutTransport || prev == verifOutLoading
		verifAssert(retryOn, "no retry when DisableRetry is set")
		verifAssert(kind != 0, "only read-only or retryable commands are retried")
		verifAssert(allowedErr, "a retry follows only a transport error or a LOADING reply")
		verifAssert(delays[delayIdx] >= 0, "no retry when RetryDelay returns a negative delay")
		verifAssert(closedAt < 0 || closedAt > i-1+1, "no retry once the client is closed")
		verifReach("retried")
	}
	if kind == 0 {
		verifAssert(execs <= 1, "a command that is neither read-only nor retryable is executed at most once")
	}
	// the final reply is returned as it is
	last, _ := verifAttempt(outs[n-1], func() {})
	verifAssert((resp.Error() == nil) == (last.Error() == nil), "the last reply is returned unchanged")
	if outs[n-1] == verifOutNil {
		verifAssert(IsRedisNil(resp.Error()), "a nil reply is returned as it is")
	}
	verifReach("returned")
}

// VerifC28_multi: batches through singleClient.DoMulti. Each position is a write, a read-only
// command or a write marked retryable; an attempt either succeeds or the connection drops after
// the server has executed a prefix of the batch (prefix length by decision).
func VerifC28_multi() {
	sc := &verifStubConn{}
	rt := newRetryer(func(attempts int, cmd Completed, err error) time.Duration { return 0 })
	client := newSingleClientWithConn(sc, cmds.NewBuilder(cmds.NoSlot), true, false, rt, true)
	n := 2 + verifChoose(2)
	kinds := make([]int, n)
	multi := make([]Completed, n)
	for i := range multi {
		kinds[i] = verifChoose(3)
		switch kinds[i] {
		case 0:
			multi[i] = client.B().Incr().Key("k").Build().Pin()
		case 1:
			multi[i] = client.B().Get().Key("k").Build().Pin()
		default:
			multi[i] = client.B().Incr().Key("k").Build().ToRetryable().Pin()
		}
	}
	execs := make([]int, n)
	attempts := 0
	maxAttempts := verifParam("max_attempts", 3)
	loadingAt := -1 // the last attempt in which one command alone was answered LOADING
	serve := func(m []Completed) []RedisResult {
		attempts++
		verifAssert(len(m) == n, "the whole batch is sent")
		rs := make([]RedisResult, len(m))
		mode := 0
		if attempts < maxAttempts {
			mode = verifChoose(3)
		}
		if mode == 1 {
			done := verifChoose(len(m) + 1) // the server executed this many commands before the connection dropped
			for i := range rs {
				if i < done {
					execs[i]++
				}
				rs[i] = NewErrorResult(verifErrPage)
			}
			verifReach("dropped")
			return rs
		}
		at := -1
		if mode == 2 {
			at = verifChoose(len(m)) // the server executes all but this one, which it answers with LOADING
			loadingAt = attempts
			verifReach("loading")
		}
		for i := range rs {
			if i == at {
				rs[i] = verifErrReply("LOADING Redis is loading the dataset in memory")
				continue
			}
			execs[i]++
			rs[i] = NewResult(strmsg(typeSimpleString, "OK"), nil)
		}
		return rs
	}
	sc.doMulti = func(ctx context.Context, m []Completed) []RedisResult { return serve(m) }
	var resps []RedisResult
	if verifChoose(2) == 1 {
		// the same batch through a dedicated client (dedicatedSingleClient.DoMulti over the acquired wire)
		d, release := client.Dedicate()
		sc.acquired.doMultiFn = serve
		resps = d.DoMulti(context.Background(), multi...)
		release()
		verifReach("dedicated")
	} else {
		resps = client.DoMulti(context.Background(), multi...)
	}
	verifAssert(len(resps) == n, "one result per command")
	if loadingAt == attempts {
		seen := false
		for i := range resps {
			if e, ok := IsRedisErr(resps[i].Error()); ok && e.IsLoading() {
				seen = true
			}
		}
		verifAssert(seen, "a LOADING reply that is not retried is returned as it is")
	}
	allRetryable := true
	for i := range kinds {
		if kinds[i] == 0 {
			allRetryable = false
			verifAssert(execs[i] <= 1, "a command that is neither read-only nor retryable is executed at most once per DoMulti call")
		}
	}
	if attempts > 1 {
		verifAssert(allRetryable, "a batch is re-sent only when every command in it is read-only or retryable")
		verifReach("retried")
	}
	verifReach("returned")
}

// VerifC28_clusterMulti: cluster batches and the retry policy. The node answers LOADING (or drops
// the connection) for a number of rounds; the caller's RetryDelay allows a number of retries and
// then says stop (negative delay). The batch is re-sent only while the policy allows it.
func VerifC28_clusterMulti() {
	allow := verifChoose(3) // retries the policy allows: 0, 1, 2
	asked := 0
	rt := newRetryer(func(attempts int, cmd Completed, err error) time.Duration {
		asked++
		if attempts <= allow {
			return 0
		}
		return -1
	})
	node := &verifStubConn{addr: "a:1"}
	rounds := 0
	failRounds := verifChoose(5) // the node fails this many rounds before it answers
	failKind := verifChoose(2)
	node.doMulti = func(ctx context.Context, m []Completed) []RedisResult {
		rounds++
		rs := make([]RedisResult, len(m))
		for i := range rs {
			switch {
			case rounds > failRounds:
				rs[i] = NewResult(strmsg(typeSimpleString, "OK"), nil)
			case failKind == 0:
				rs[i] = verifErrReply("LOADING Redis is loading the dataset in memory")
			default:
				rs[i] = NewErrorResult(verifErrPage)
			}
		}
		return rs
	}
	opt := &ClientOption{}
	c := &clusterClient{cmd: cmds.NewBuilder(cmds.InitSlot), opt: opt, conns: map[string]connrole{"a:1": {conn: node}},
		connFn: func(addr string, _ *ClientOption) conn { return node },
		retry:  true, retryHandler: rt, stopCh: make(chan struct{})}
	bd := c.B()
	multi := []Completed{bd.Get().Key("{s}1").Build().Pin(), bd.Get().Key("{s}2").Build().Pin()}
	for _, m := range multi {
		c.wslots[m.Slot()] = node
	}
	resps := c.DoMulti(context.Background(), multi...)
	verifAssert(len(resps) == 2, "one result per command")
	verifAssert(rounds <= allow+1, "the batch is re-sent only while RetryDelay returns a non-negative delay")
	if failRounds <= allow {
		verifAssert(rounds == failRounds+1 && resps[0].Error() == nil, "allowed retries are made until the node answers")
		verifReach("recovered")
	} else {
		verifAssert(resps[0].Error() != nil, "when the policy says stop the last failure is returned")
		verifReach("gaveup")
	}
}
