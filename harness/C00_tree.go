package rueidis

// Model value trees shared by the RESP / cache / accessor harnesses.

type verifTree struct {
	typ  byte
	s    string // string-like payload
	n    int64  // ':' value, '#' 0/1
	kids []verifTree
	null bool // RESP2 null forms decode to typeNull
	attr []verifTree // attribute key/value children attached to this value (nil: none)
}

func verifIsStr(t byte) bool {
	switch t {
	case typeBlobString, typeSimpleString, typeSimpleErr, typeFloat, typeBlobErr, typeVerbatimString, typeBigNumber:
		return true
	}
	return false
}

func verifIsAgg(t byte) bool {
	return t == typeArray || t == typeMap || t == typeSet || t == typePush
}

// verifGenTree draws a tree: type by forking choice (root types at the top, leaf types below
// depth 0), payload symbolic; string lengths from strlens.
func verifGenTree(types, leafTypes []byte, depth, width int, strlens []int) verifTree {
	ts := types
	if depth == 0 {
		ts = leafTypes
	}
	t := verifTree{typ: ts[verifChoose(len(ts))]}
	switch {
	case verifIsStr(t.typ):
		t.s = verifNondetString(strlens[verifChoose(len(strlens))])
	case t.typ == typeInteger:
		t.n = verifNondetInt64()
	case t.typ == typeBool:
		t.n = int64(verifNondetInt(0, 1))
	case verifIsAgg(t.typ):
		n := 0
		if depth > 0 {
			n = verifChoose(width + 1)
		}
		if t.typ == typeMap && depth > 0 {
			n = 2 * verifChoose(width/2+1)
		}
		t.kids = make([]verifTree, n)
		for i := range t.kids {
			t.kids[i] = verifGenTree(types, leafTypes, depth-1, width, strlens)
		}
	}
	return t
}

func (t verifTree) msg() RedisMessage {
	switch {
	case verifIsStr(t.typ):
		return strmsg(t.typ, t.s)
	case verifIsAgg(t.typ):
		vs := make([]RedisMessage, len(t.kids))
		for i := range vs {
			vs[i] = t.kids[i].msg()
		}
		return slicemsg(t.typ, vs)
	}
	return RedisMessage{typ: t.typ, intlen: t.n}
}

// verifTreeEq asserts that m is exactly the value t describes.
func verifTreeEq(m *RedisMessage, t verifTree) {
	if t.null {
		verifAssert(m.typ == typeNull, "null decodes to the null type")
		return
	}
	verifAssert(m.typ == t.typ, "type tag preserved")
	switch {
	case verifIsStr(t.typ):
		verifAssert(m.array == nil, "string value has no children")
		verifAssert(m.string() == t.s, "string payload preserved")
	case verifIsAgg(t.typ):
		verifAssert(m.bytes == nil, "aggregate has no string payload")
		vs := m.values()
		verifAssert(len(vs) == len(t.kids), "child count preserved")
		for i := range t.kids {
			verifTreeEq(&vs[i], t.kids[i])
		}
	case t.typ == typeInteger || t.typ == typeBool:
		verifAssert(m.intlen == t.n, "integer value preserved")
	}
}
