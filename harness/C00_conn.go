package rueidis

import (
	"bufio"
	"io"
	"net"
	"sync"
	"time"
)

// verifConn: an in-memory duplex byte pipe standing in for the TCP connection. Plain Go on
// sync.Mutex/Cond, so under the engine every blocking point is a scheduling point.

type verifHalf struct {
	mu     sync.Mutex
	cond   *sync.Cond
	buf    []byte
	closed bool
	total  int // bytes ever written into this half
}

func newVerifHalf() *verifHalf {
	h := &verifHalf{}
	h.cond = sync.NewCond(&h.mu)
	return h
}

func (h *verifHalf) write(p []byte) {
	h.mu.Lock()
	h.buf = append(h.buf, p...)
	h.total += len(p)
	h.mu.Unlock()
	h.cond.Broadcast()
}

// read blocks until data or close; returns 0 on close with no data.
func (h *verifHalf) read(p []byte) int {
	h.mu.Lock()
	for len(h.buf) == 0 && !h.closed {
		h.cond.Wait()
	}
	n := copy(p, h.buf)
	h.buf = h.buf[n:]
	h.mu.Unlock()
	return n
}

func (h *verifHalf) close() {
	h.mu.Lock()
	h.closed = true
	h.mu.Unlock()
	h.cond.Broadcast()
}

type verifAddr struct{}

func (verifAddr) Network() string { return "verif" }
func (verifAddr) String() string  { return "verif:0" }

type verifConn struct {
	in, out *verifHalf // in: server -> client, out: client -> server
	closes  int
	// fault injection: the failAt-th I/O operation (Read or Write, counted from 1) fails
	ops     int
	failAt  int
	failErr error
	writes  int
}

var _ net.Conn = (*verifConn)(nil)

func newVerifConn() *verifConn {
	return &verifConn{in: newVerifHalf(), out: newVerifHalf()}
}

func (c *verifConn) fault() error {
	c.ops++
	if c.failAt != 0 && c.ops >= c.failAt {
		return c.failErr
	}
	return nil
}

func (c *verifConn) Read(p []byte) (int, error) {
	if err := c.fault(); err != nil {
		return 0, err
	}
	n := c.in.read(p)
	if n == 0 {
		return 0, io.EOF
	}
	return n, nil
}

func (c *verifConn) Write(p []byte) (int, error) {
	if err := c.fault(); err != nil {
		return 0, err
	}
	if c.out.closed {
		return 0, io.ErrClosedPipe
	}
	c.writes++
	c.out.write(p)
	return len(p), nil
}

func (c *verifConn) Close() error {
	c.closes++
	c.in.close()
	c.out.close()
	return nil
}
func (c *verifConn) LocalAddr() net.Addr                { return verifAddr{} }
func (c *verifConn) RemoteAddr() net.Addr               { return verifAddr{} }
func (c *verifConn) SetDeadline(t time.Time) error      { return nil }
func (c *verifConn) SetReadDeadline(t time.Time) error  { return nil }
func (c *verifConn) SetWriteDeadline(t time.Time) error { return nil }

// ---- server side ----

type verifServer struct {
	c   *verifConn
	r   *bufio.Reader
	log [][]string // commands fully read (= executed), in order
}

type verifSrvReader struct{ h *verifHalf }

func (r verifSrvReader) Read(p []byte) (int, error) {
	n := r.h.read(p)
	if n == 0 {
		return 0, io.EOF
	}
	return n, nil
}

func newVerifServer(c *verifConn) *verifServer {
	return &verifServer{c: c, r: bufio.NewReaderSize(verifSrvReader{c.out}, 64)}
}

// next reads one command (array of bulk strings) sent by the client; ok=false on close.
func (s *verifServer) next() (argv []string, ok bool) {
	m, err := readNextMessage(s.r) // the library's own decoder reads the library's own encoder: framing itself is C12/C14
	if err != nil {
		return nil, false
	}
	for _, v := range m.values() {
		argv = append(argv, v.string())
	}
	s.log = append(s.log, argv)
	return argv, true
}

func (s *verifServer) send(b string) { s.c.in.write([]byte(b)) }

// verifNewPipe builds a pipe the way _newPipe does, without the handshake (C47 covers it).
func verifNewPipe(conn net.Conn, flow bool) *pipe {
	p := &pipe{
		conn: conn,
		r:    bufio.NewReaderSize(conn, 128),
		w:    bufio.NewWriterSize(conn, 128),
	}
	if flow {
		p.queue = newFlowBuffer(1)
	} else {
		p.queue = newRing(1)
	}
	p.nsubs = newSubs()
	p.psubs = newSubs()
	p.ssubs = newSubs()
	p.close = make(chan struct{})
	p.cache = newLRU(CacheStoreOption{CacheSizeEachConn: 1 << 20})
	p.pshks.Store(emptypshks)
	p.clhks.Store(emptyclhks)
	p.version = 7
	p.info = map[string]RedisMessage{}
	return p
}
