package rueidishook

import (
	"context"
	"errors"
	"time"

	"github.com/redis/rueidis"
)

// C43: every request path of a wrapped client (and of its dedicated and per-node clients)
// goes through the hook exactly once and returns the hook's result unchanged.

type verifInner struct {
	name  string
	calls int
}

func (c *verifInner) B() rueidis.Builder { return rueidis.Builder{} }
func (c *verifInner) Do(ctx context.Context, cmd rueidis.Completed) rueidis.RedisResult {
	c.calls++
	return rueidis.RedisResult{}
}
func (c *verifInner) DoMulti(ctx context.Context, multi ...rueidis.Completed) []rueidis.RedisResult {
	c.calls++
	return nil
}
func (c *verifInner) DoCache(ctx context.Context, cmd rueidis.Cacheable, ttl time.Duration) rueidis.RedisResult {
	c.calls++
	return rueidis.RedisResult{}
}
func (c *verifInner) DoMultiCache(ctx context.Context, multi ...rueidis.CacheableTTL) []rueidis.RedisResult {
	c.calls++
	return nil
}
func (c *verifInner) DoStream(ctx context.Context, cmd rueidis.Completed) rueidis.RedisResultStream {
	c.calls++
	return rueidis.RedisResultStream{}
}
func (c *verifInner) DoMultiStream(ctx context.Context, multi ...rueidis.Completed) rueidis.MultiRedisResultStream {
	c.calls++
	return rueidis.MultiRedisResultStream{}
}
func (c *verifInner) Receive(ctx context.Context, subscribe rueidis.Completed, fn func(msg rueidis.PubSubMessage)) error {
	c.calls++
	return nil
}
func (c *verifInner) Dedicated(fn func(rueidis.DedicatedClient) error) error {
	return fn(&verifDed{inner: c})
}
func (c *verifInner) Dedicate() (rueidis.DedicatedClient, func()) {
	return &verifDed{inner: c}, func() {}
}
func (c *verifInner) Nodes() map[string]rueidis.Client {
	return map[string]rueidis.Client{"n1": &verifInner{name: "n1"}, "n2": &verifInner{name: "n2"}}
}
func (c *verifInner) Mode() rueidis.ClientMode { return rueidis.ClientModeStandalone }
func (c *verifInner) Close()                   {}

type verifDed struct {
	inner *verifInner
}

func (d *verifDed) B() rueidis.Builder { return rueidis.Builder{} }
func (d *verifDed) Do(ctx context.Context, cmd rueidis.Completed) rueidis.RedisResult {
	d.inner.calls++
	return rueidis.RedisResult{}
}
func (d *verifDed) DoMulti(ctx context.Context, multi ...rueidis.Completed) []rueidis.RedisResult {
	d.inner.calls++
	return nil
}
func (d *verifDed) Receive(ctx context.Context, subscribe rueidis.Completed, fn func(msg rueidis.PubSubMessage)) error {
	d.inner.calls++
	return nil
}
func (d *verifDed) SetPubSubHooks(hooks rueidis.PubSubHooks) <-chan error          { return nil }
func (d *verifDed) SetOnInvalidations(fn func([]rueidis.RedisMessage)) <-chan error { return nil }
func (d *verifDed) Close()                                                            {}

type verifHook struct {
	n      map[string]int
	client rueidis.Client // the client the hook was handed
	err    error          // the result the hook returns (unique per call)
}

func (h *verifHook) hit(what string, c rueidis.Client) error {
	h.n[what]++
	h.client = c
	h.err = errors.New("hook result " + what)
	return h.err
}
func (h *verifHook) Do(client rueidis.Client, ctx context.Context, cmd rueidis.Completed) rueidis.RedisResult {
	return rueidis.NewErrorResult(h.hit("Do", client))
}
func (h *verifHook) DoMulti(client rueidis.Client, ctx context.Context, multi ...rueidis.Completed) []rueidis.RedisResult {
	return []rueidis.RedisResult{rueidis.NewErrorResult(h.hit("DoMulti", client))}
}
func (h *verifHook) DoCache(client rueidis.Client, ctx context.Context, cmd rueidis.Cacheable, ttl time.Duration) rueidis.RedisResult {
	return rueidis.NewErrorResult(h.hit("DoCache", client))
}
func (h *verifHook) DoMultiCache(client rueidis.Client, ctx context.Context, multi ...rueidis.CacheableTTL) []rueidis.RedisResult {
	return []rueidis.RedisResult{rueidis.NewErrorResult(h.hit("DoMultiCache", client))}
}
func (h *verifHook) Receive(client rueidis.Client, ctx context.Context, subscribe rueidis.Completed, fn func(msg rueidis.PubSubMessage)) error {
	return h.hit("Receive", client)
}
func (h *verifHook) DoStream(client rueidis.Client, ctx context.Context, cmd rueidis.Completed) rueidis.RedisResultStream {
	return rueidis.NewErrorResultStream(h.hit("DoStream", client))
}
func (h *verifHook) DoMultiStream(client rueidis.Client, ctx context.Context, multi ...rueidis.Completed) rueidis.MultiRedisResultStream {
	return rueidis.NewErrorResultStream(h.hit("DoMultiStream", client))
}

func VerifC43_hooks() {
	inner := &verifInner{name: "root"}
	hook := &verifHook{n: map[string]int{}}
	wrapped := WithHook(inner, hook)
	ctx := context.Background()
	var cmd rueidis.Completed
	var cache rueidis.Cacheable

	// which client the call goes through
	var c rueidis.Client = wrapped
	var d rueidis.DedicatedClient
	route := verifChoose(4)
	switch route {
	case 1:
		nodes := wrapped.Nodes()
		verifAssert(len(nodes) == 2, "Nodes keeps every node")
		c = nodes[[]string{"n1", "n2"}[verifChoose(2)]]
	case 2:
		dd, cancel := wrapped.Dedicate()
		defer cancel()
		d = dd
	case 3:
		_ = wrapped.Dedicated(func(dd rueidis.DedicatedClient) error {
			d = dd
			return nil
		})
	}
	var got error
	what := ""
	if d != nil {
		switch verifChoose(3) {
		case 0:
			what = "Do"
			got = d.Do(ctx, cmd).NonRedisError()
		case 1:
			what = "DoMulti"
			rs := d.DoMulti(ctx, cmd)
			verifAssert(len(rs) == 1, "hook's results returned")
			got = rs[0].NonRedisError()
		default:
			what = "Receive"
			got = d.Receive(ctx, cmd, func(rueidis.PubSubMessage) {})
		}
		verifReach("dedicated")
	} else {
		switch verifChoose(7) {
		case 0:
			what = "Do"
			got = c.Do(ctx, cmd).NonRedisError()
		case 1:
			what = "DoMulti"
			rs := c.DoMulti(ctx, cmd)
			verifAssert(len(rs) == 1, "hook's results returned")
			got = rs[0].NonRedisError()
		case 2:
			what = "DoCache"
			got = c.DoCache(ctx, cache, time.Second).NonRedisError()
		case 3:
			what = "DoMultiCache"
			rs := c.DoMultiCache(ctx, rueidis.CT(cache, time.Second))
			verifAssert(len(rs) == 1, "hook's results returned")
			got = rs[0].NonRedisError()
		case 4:
			what = "Receive"
			got = c.Receive(ctx, cmd, func(rueidis.PubSubMessage) {})
		case 5:
			what = "DoStream"
			s := c.DoStream(ctx, cmd)
			got = s.Error()
		default:
			what = "DoMultiStream"
			s := c.DoMultiStream(ctx, cmd)
			got = s.Error()
		}
		verifReach("client")
	}
	total := 0
	for _, k := range hook.n {
		total += k
	}
	verifAssert(hook.n[what] == 1 && total == 1, "the call goes through the matching hook method exactly once")
	verifAssert(got == hook.err, "the hook's result is returned unchanged")
	verifAssert(inner.calls == 0, "the wrapped client is reached only through the hook")
	verifAssert(hook.client != nil, "the hook is handed a client to forward to")
}

// ---- chained hooks: WithHook(WithHook(c, h1), h2); both hooks forward to the client they are handed

type verifFwdHook struct {
	name string
	n    int
}

func (h *verifFwdHook) Do(client rueidis.Client, ctx context.Context, cmd rueidis.Completed) rueidis.RedisResult {
	h.n++
	return client.Do(ctx, cmd)
}
func (h *verifFwdHook) DoMulti(client rueidis.Client, ctx context.Context, multi ...rueidis.Completed) []rueidis.RedisResult {
	h.n++
	return client.DoMulti(ctx, multi...)
}
func (h *verifFwdHook) DoCache(client rueidis.Client, ctx context.Context, cmd rueidis.Cacheable, ttl time.Duration) rueidis.RedisResult {
	h.n++
	return client.DoCache(ctx, cmd, ttl)
}
func (h *verifFwdHook) DoMultiCache(client rueidis.Client, ctx context.Context, multi ...rueidis.CacheableTTL) []rueidis.RedisResult {
	h.n++
	return client.DoMultiCache(ctx, multi...)
}
func (h *verifFwdHook) Receive(client rueidis.Client, ctx context.Context, subscribe rueidis.Completed, fn func(msg rueidis.PubSubMessage)) error {
	h.n++
	return client.Receive(ctx, subscribe, fn)
}
func (h *verifFwdHook) DoStream(client rueidis.Client, ctx context.Context, cmd rueidis.Completed) rueidis.RedisResultStream {
	h.n++
	return client.DoStream(ctx, cmd)
}
func (h *verifFwdHook) DoMultiStream(client rueidis.Client, ctx context.Context, multi ...rueidis.Completed) rueidis.MultiRedisResultStream {
	h.n++
	return client.DoMultiStream(ctx, multi...)
}

var verifNodeClients = map[string]*verifInner{}

type verifInnerNodes struct{ verifInner }

func (c *verifInnerNodes) Nodes() map[string]rueidis.Client {
	out := map[string]rueidis.Client{}
	for k, v := range verifNodeClients {
		out[k] = v
	}
	return out
}

// VerifC43_chained: two hooks stacked (tracing + metrics, say): every request path runs through
// each of them exactly once and reaches the underlying client exactly once.
func VerifC43_chained() {
	verifNodeClients = map[string]*verifInner{"n1": {name: "n1"}, "n2": {name: "n2"}}
	inner := &verifInnerNodes{verifInner{name: "root"}}
	h1, h2 := &verifFwdHook{name: "h1"}, &verifFwdHook{name: "h2"}
	wrapped := WithHook(WithHook(inner, h1), h2)
	ctx := context.Background()
	var cmd rueidis.Completed
	var cache rueidis.Cacheable
	var c rueidis.Client = wrapped
	var d rueidis.DedicatedClient
	target := &inner.verifInner
	switch verifChoose(4) {
	case 1:
		nodes := wrapped.Nodes()
		verifAssert(len(nodes) == 2, "Nodes keeps every node")
		name := []string{"n1", "n2"}[verifChoose(2)]
		c = nodes[name]
		target = verifNodeClients[name]
		verifReach("nodes")
	case 2:
		dd, cancel := wrapped.Dedicate()
		defer cancel()
		d = dd
	case 3:
		_ = wrapped.Dedicated(func(dd rueidis.DedicatedClient) error {
			d = dd
			return nil
		})
	}
	if d != nil {
		switch verifChoose(3) {
		case 0:
			d.Do(ctx, cmd)
		case 1:
			d.DoMulti(ctx, cmd)
		default:
			d.Receive(ctx, cmd, func(rueidis.PubSubMessage) {})
		}
		verifReach("dedicated")
	} else {
		switch verifChoose(7) {
		case 0:
			c.Do(ctx, cmd)
		case 1:
			c.DoMulti(ctx, cmd)
		case 2:
			c.DoCache(ctx, cache, time.Second)
		case 3:
			c.DoMultiCache(ctx, rueidis.CT(cache, time.Second))
		case 4:
			c.Receive(ctx, cmd, func(rueidis.PubSubMessage) {})
		case 5:
			c.DoStream(ctx, cmd)
		default:
			c.DoMultiStream(ctx, cmd)
		}
		verifReach("client")
	}
	verifAssert(h2.n == 1, "the outer hook sees the request exactly once")
	verifAssert(h1.n == 1, "the inner hook sees the request exactly once")
	verifAssert(target.calls == 1, "the underlying client is reached exactly once")
}
