package cmds

import "strings"

// C32 / C33: helpers for the generated builder harness (engine/genbuilders.go emits one case
// per generated method and per root constructor, calling into these checks).

// verifGenCheck: the step relation of one builder method.
//   same:  the result shares the receiver's command slice
//   s:     the argv after the call; the receiver's argv was ["P0","P1"]
//   cf,ks: the result's flags and slot; cf0 the receiver's (symbolic) flags
//   want:  the caller's arguments rendered in call order (nil: rendering not checked)
func verifGenCheck(same bool, s []string, cf, ks int32, cf0 interface{}, want []string, exact, mustBlock bool) {
	verifAssert(same, "the method extends the receiver's command, it does not start a new one")
	verifAssert(len(s) >= 2 && s[0] == "P0" && s[1] == "P1", "what was built so far is kept, in order")
	verifAssert(uint16(ks)&NoSlot == NoSlot, "a builder without slot checking stays so")
	app := s[2:]
	hasBlockToken := false
	if exact {
		verifAssert(len(app) >= len(want), "every argument is appended")
		k := len(app) - len(want)
		for i := 0; i < k; i++ {
			verifAssert(!verifIsSymbolic(app[i]) && app[i] != "", "the method's own tokens are constants")
			if app[i] == "BLOCK" {
				hasBlockToken = true
			}
		}
		for i, w := range want {
			verifAssert(app[k+i] == w, "the caller's arguments follow the method's tokens in call order, rendered as strings (base 10 integers, shortest floats)")
		}
	} else {
		for _, t := range app {
			if !verifIsSymbolic(t) && t == "BLOCK" {
				hasBlockToken = true
			}
		}
	}
	var pre uint16
	switch v := cf0.(type) {
	case int16:
		pre = uint16(v)
	case uint16:
		pre = v
	}
	post := uint16(cf)
	if mustBlock {
		verifAssert(post == pre|blockTag, "XREAD/XREADGROUP ... BLOCK marks the command blocking")
	} else if hasBlockToken {
		verifAssert(post == pre|blockTag || post == pre, "flags are preserved (a BLOCK token may add the blocking tag)")
	} else {
		verifAssert(post == pre, "a non-root method preserves the command's flags")
	}
}

// hand-written from the Redis command reference (independent of hack/cmds)
var verifKnownReads = []string{"Get", "Mget", "Strlen", "Getrange", "Exists", "Ttl", "Pttl", "Type", "Hget", "Hmget", "Hgetall", "Hlen", "Hexists", "Hkeys", "Hvals",
	"Lrange", "Llen", "Lindex", "Scard", "Sismember", "Smembers", "Zrange", "Zscore", "Zcard", "Zrank", "Zcount", "Xrange", "Xlen", "Bitcount", "Getbit", "Dbsize", "Keys", "Scan", "Hscan", "Sscan", "Zscan", "Pfcount", "Geopos", "Geodist", "JsonGet", "JsonMget"}
var verifKnownWrites = []string{"Set", "Setnx", "Setex", "Psetex", "Mset", "Msetnx", "Append", "Incr", "Incrby", "Decr", "Decrby", "Del", "Unlink", "Expire", "Pexpire", "Persist", "Rename",
	"Hset", "Hdel", "Hincrby", "Lpush", "Rpush", "Lpop", "Rpop", "Lset", "Ltrim", "Sadd", "Srem", "Spop", "Zadd", "Zrem", "Zincrby", "Xadd", "Xdel", "Xtrim", "Xack", "Getdel", "Getset", "Getex",
	"Flushall", "Flushdb", "Eval", "Evalsha", "Fcall", "Publish", "Pfadd", "Setbit", "Geoadd", "JsonSet", "JsonDel", "Copy", "Move", "Restore", "Sort"}
var verifKnownBlocking = []string{"Blpop", "Brpop", "Brpoplpush", "Blmove", "Blmpop", "Bzpopmin", "Bzpopmax", "Bzmpop"}
var verifSubs = []string{"Subscribe", "Psubscribe", "Ssubscribe"}
var verifUnsubs = []string{"Unsubscribe", "Punsubscribe", "Sunsubscribe"}

func verifIn(l []string, x string) bool {
	for _, y := range l {
		if y == x {
			return true
		}
	}
	return false
}

func verifRootCheck(name string, s []string, cf int16, offersCache bool) {
	f := uint16(cf)
	verifAssert(len(s) >= 1, "a root constructor starts the command with its name")
	for _, t := range s {
		verifAssert(t != "" && t == strings.ToUpper(t), "command tokens are upper-case constants")
	}
	isRO := f&readonly == readonly
	if offersCache {
		verifAssert(isRO, "every command offering Cache() is read-only")
		verifReach("cacheable")
	}
	if verifIn(verifKnownWrites, name) {
		verifAssert(!isRO, "a command with side effects is not marked read-only")
		verifReach("write")
	}
	if verifIn(verifKnownReads, name) {
		verifAssert(isRO, "a side-effect-free read is marked read-only")
		verifReach("read")
	}
	if verifIn(verifKnownBlocking, name) {
		verifAssert(f&blockTag == blockTag, "blocking commands are marked blocking")
		verifReach("blocking")
	}
	sub, unsub := verifIn(verifSubs, name), verifIn(verifUnsubs, name)
	verifAssert((f&noRetTag == noRetTag) == (sub || unsub), "exactly the SUBSCRIBE and UNSUBSCRIBE families are marked as Pub/Sub commands")
	verifAssert((f&unsubTag == unsubTag) == unsub, "exactly the UNSUBSCRIBE family carries the unsubscribe tag")
	if sub || unsub {
		verifReach("pubsub")
	}
}
