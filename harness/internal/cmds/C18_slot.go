package cmds

// C18: key slots follow the Redis Cluster hash-slot specification.

// verifXmodemBit is CRC-16/XMODEM computed bit by bit (poly 0x1021, init 0, no reflection),
// written branch-free so that it is one term for symbolic input.
func verifXmodemBit(crc uint16, b byte) uint16 {
	crc ^= uint16(b) << 8
	for k := 0; k < 8; k++ {
		m := uint16(0) - (crc >> 15) // 0xffff if the top bit is set
		crc = (crc << 1) ^ (0x1021 & m)
	}
	return crc
}

func verifXmodem(s string) (crc uint16) {
	for i := 0; i < len(s); i++ {
		crc = verifXmodemBit(crc, s[i])
	}
	return crc
}

// VerifC18_crcTable: every table entry equals eight bitwise XMODEM steps of its index.
func VerifC18_crcTable() {
	i := verifNondetByte()
	verifReach("table")
	verifAssert(crc16tab[i] == verifXmodemBit(0, i), "crc16tab[i] == bitwise XMODEM of i")
}

// VerifC18_crcSmall: crc16 == bitwise XMODEM for every string of n symbolic bytes. With n = 3
// the pre-state of the last loop iteration ranges over all 2^16 CRC states (the CRC of two
// free bytes is a bijection), so the loop body is covered for every (state, byte) pair.
func VerifC18_crcSmall() {
	n := verifChoose(verifParam("max_len", 2) + 1)
	s := verifNondetString(n)
	verifReach("crc")
	verifAssert(crc16(s) == verifXmodem(s), "crc16(s) == XMODEM(s)")
	if n == 0 {
		verifAssert(crc16("123456789") == 0x31C3, "check value")
	}
}

// verifSpecTag is the hash-tag rule of the cluster specification, written independently:
// the text between the first '{' and the first '}' after it, if non-empty; else the whole key.
func verifSpecTag(key string) string {
	open := -1
	for i := 0; i < len(key); i++ {
		if key[i] == '{' {
			open = i
			break
		}
	}
	if open < 0 {
		return key
	}
	cl := -1
	for j := open + 1; j < len(key); j++ {
		if key[j] == '}' {
			cl = j
			break
		}
	}
	if cl < 0 || cl == open+1 {
		return key
	}
	return key[open+1 : cl]
}

// VerifC18_hashtag: slot(key) == XMODEM(tag(key)) mod 16384 for every key of ≤ max_len bytes.
func VerifC18_hashtag() {
	n := verifChoose(verifParam("max_len", 6) + 1)
	key := verifNondetString(n)
	got := slot(key)
	tag := verifSpecTag(key)
	verifReach("slot")
	if len(tag) != len(key) {
		verifReach("tagged")
	}
	verifAssert(got == crc16(tag)&16383, "slot(key) == crc16(hash tag) & 16383")
	verifAssert(got < 16384, "slot in range")
}

// VerifC18_keyMethods: builders fold key slots as the spec demands: same slot accepted,
// different slots rejected by cluster builders (InitSlot) and accepted by NoSlot builders.
func VerifC18_keyMethods() {
	mk := verifParam("max_key", 2)
	k1 := verifNondetString(verifChoose(mk) + 1)
	k2 := verifNondetString(verifChoose(mk) + 1)
	s1, s2 := slot(k1), slot(k2)
	cluster := verifChoose(2) == 0
	var b Builder
	if cluster {
		b = NewBuilder(InitSlot)
	} else {
		b = NewBuilder(NoSlot)
	}
	panicked := false
	var c Completed
	func() {
		defer func() {
			if r := recover(); r != nil {
				panicked = true
			}
		}()
		c = b.Mget().Key(k1).Key(k2).Build()
	}()
	if cluster {
		if s1 != s2 {
			verifReach("crossslot")
			verifAssert(panicked, "cluster builder rejects keys of different slots")
		} else {
			verifAssert(!panicked, "cluster builder accepts keys of one slot")
			verifAssert(c.Slot() == s1, "command slot is the key slot")
		}
	} else {
		verifAssert(!panicked, "non-cluster builder accepts any keys")
		verifReach("noslot")
	}
	one := b.Get().Key(k1).Build()
	if cluster {
		verifAssert(one.Slot() == s1, "single-key command slot")
	}
}
