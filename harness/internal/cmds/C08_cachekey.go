package cmds

// C08: distinct cacheable commands never share a cache entry.

func verifArgv(maxLen, maxElem int, names []string) []string {
	n := 2 + verifChoose(maxLen-1)
	a := make([]string, n)
	a[0] = names[verifChoose(len(names))]
	for i := 1; i < n; i++ {
		a[i] = verifNondetString(verifChoose(maxElem + 1))
	}
	return a
}

func verifSameArgv(a, b []string) bool {
	if len(a) != len(b) {
		return false
	}
	for i := range a {
		if a[i] != b[i] {
			return false
		}
	}
	return true
}

// verifConcatRest: the arguments other than the key, joined without delimiter.
func verifConcatRest(a []string, kp int) string {
	s := ""
	for i, v := range a {
		if i != kp {
			s += v
		}
	}
	return s
}

// VerifC08_cachekey: two commands with the same (key, cmd) identity must be the same command.
// The identity the built-in store uses is the pair returned by CacheKey; the adapter store
// uses the string key+cmd (checked in VerifC08_adapter of the root package).
func VerifC08_cachekey() {
	names := []string{"GET", "HGET", "GETRANGE", "HMGET"}
	maxLen := verifParam("max_argv", 4)
	maxElem := verifParam("max_elem", 2)
	a := verifArgv(maxLen, maxElem, names)
	b := verifArgv(maxLen, maxElem, names)
	ka, ca := CacheKey(Cacheable{cs: newCommandSlice(a)})
	kb, cb := CacheKey(Cacheable{cs: newCommandSlice(b)})
	verifAssert(ka == a[1] && kb == b[1], "the cache key is the command's key argument")
	if ka == kb && ca == cb && !verifSameArgv(a, b) {
		// classify the collision
		if a[0] != b[0] && len(a) == 2 && len(b) == 2 {
			verifFail("two-element commands with different names share a cache identity")
		}
		if verifConcatRest(a, 1) != verifConcatRest(b, 1) {
			verifFail("commands whose non-key arguments differ even after concatenation share a cache identity (an argument is missing from the identity)")
		}
		verifFail("cache identity does not delimit arguments: distinct argument lists with equal concatenation collide")
	}
	verifReach("compared")
}

// VerifC08_script: read-only scripts (EVAL_RO/EVALSHA_RO sha numkeys=1 key args...).
func VerifC08_script() {
	maxElem := verifParam("max_elem", 2)
	mk := func() []string {
		a := []string{[]string{"EVAL_RO", "EVALSHA_RO"}[verifChoose(2)], verifNondetString(verifChoose(maxElem + 1)), "1", verifNondetString(verifChoose(maxElem + 1))}
		for n := verifChoose(verifParam("max_args", 2) + 1); n > 0; n-- {
			a = append(a, verifNondetString(verifChoose(maxElem+1)))
		}
		return a
	}
	a, b := mk(), mk()
	ka, ca := CacheKey(Cacheable{cs: newCommandSlice(a), cf: scrRoTag})
	kb, cb := CacheKey(Cacheable{cs: newCommandSlice(b), cf: scrRoTag})
	verifAssert(ka == a[3] && kb == b[3], "the cache key of a read-only script is its single key")
	if ka == kb && ca == cb && !verifSameArgv(a, b) {
		if verifConcatRest(a, 3) != verifConcatRest(b, 3) {
			verifFail("scripts whose non-key arguments differ even after concatenation share a cache identity (an argument is missing from the identity)")
		}
		verifFail("cache identity does not delimit arguments: distinct argument lists with equal concatenation collide")
	}
	verifReach("compared")
}

// VerifC08_mget: MGET/JSON.MGET element identities: key i with the singular command.
func VerifC08_mget() {
	n := 1 + verifChoose(verifParam("max_keys", 3))
	json := verifChoose(2) == 1
	a := []string{"MGET"}
	if json {
		a[0] = "JSON.MGET"
	}
	for i := 0; i < n; i++ {
		a = append(a, verifNondetString(verifChoose(3)))
	}
	path := ""
	if json {
		path = verifNondetString(verifChoose(3))
		a = append(a, path)
	}
	c := Cacheable(NewMGetCompleted(a))
	for i := 0; i < n; i++ {
		verifAssert(MGetCacheKey(c, i) == a[1+i], "element i of a batched read is cached under key i")
	}
	if json {
		verifAssert(MGetCacheCmd(c) == "JSON.GET"+path, "JSON.MGET elements are cached as JSON.GET <path>")
	} else {
		verifAssert(MGetCacheCmd(c) == "GET", "MGET elements are cached as GET")
	}
	verifReach("mget")
}
