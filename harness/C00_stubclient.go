package rueidis

import (
	"context"
	"time"

	"github.com/redis/rueidis/internal/cmds"
)

// verifClient: a stub rueidis.Client for the helper / lua harnesses: logs every command and
// answers through a function supplied by the harness.
type verifClient struct {
	log    [][]string
	flags  []Completed
	answer func(argv []string) RedisResult
	nodes  map[string]Client
	slot   uint16
}

var _ Client = (*verifClient)(nil)

func (c *verifClient) B() Builder {
	if c.slot == 0 {
		return cmds.NewBuilder(cmds.NoSlot)
	}
	return cmds.NewBuilder(c.slot)
}
func (c *verifClient) Do(ctx context.Context, cmd Completed) RedisResult {
	argv := append([]string{}, cmd.Commands()...)
	c.log = append(c.log, argv)
	c.flags = append(c.flags, cmd)
	if c.answer != nil {
		return c.answer(argv)
	}
	return RedisResult{}
}
func (c *verifClient) DoMulti(ctx context.Context, multi ...Completed) []RedisResult {
	rs := make([]RedisResult, len(multi))
	for i, cmd := range multi {
		rs[i] = c.Do(ctx, cmd)
	}
	return rs
}
func (c *verifClient) DoCache(ctx context.Context, cmd Cacheable, ttl time.Duration) RedisResult {
	return c.Do(ctx, Completed(cmd))
}
func (c *verifClient) DoMultiCache(ctx context.Context, multi ...CacheableTTL) []RedisResult {
	rs := make([]RedisResult, len(multi))
	for i, cmd := range multi {
		rs[i] = c.Do(ctx, Completed(cmd.Cmd))
	}
	return rs
}
func (c *verifClient) DoStream(ctx context.Context, cmd Completed) RedisResultStream {
	return RedisResultStream{}
}
func (c *verifClient) DoMultiStream(ctx context.Context, multi ...Completed) MultiRedisResultStream {
	return MultiRedisResultStream{}
}
func (c *verifClient) Receive(ctx context.Context, subscribe Completed, fn func(msg PubSubMessage)) error {
	return nil
}
func (c *verifClient) Dedicated(fn func(DedicatedClient) error) error { return nil }
func (c *verifClient) Dedicate() (DedicatedClient, func())            { return nil, func() {} }
func (c *verifClient) Nodes() map[string]Client {
	if c.nodes != nil {
		return c.nodes
	}
	return map[string]Client{"self": c}
}
func (c *verifClient) Mode() ClientMode { return ClientModeStandalone }
func (c *verifClient) Close()           {}

func verifErrReply(text string) RedisResult {
	return NewResult(strmsg(typeSimpleErr, text), nil)
}
