package rueidis

import (
	"context"
	"errors"
	"net"
	"strconv"
	"strings"

	"github.com/redis/rueidis/internal/cmds"
)

// C47: connection setup applies the configured session settings before serving user commands.

var verifErrCreds = errors.New("verif: credentials unavailable")

func verifJoinCmd(argv []string) string { return strings.Join(argv, " ") }

func VerifC47_newPipe() {
	var opt ClientOption
	opt.ReadBufferEachConn, opt.WriteBufferEachConn = 256, 256
	opt.RingScaleEachConn = 1
	user, pass := "", ""
	credsFail := false
	switch verifChoose(6) {
	case 5:
		user = "u" // an ACL user without password: still authenticates as that user
		opt.Username = user
	case 1:
		pass = "pw"
		opt.Password = pass
	case 2:
		user, pass = "u", "pw"
		opt.Username, opt.Password = user, pass
	case 3:
		user, pass = "du", "dpw" // dynamically supplied credentials override the static ones
		opt.Username, opt.Password = "ignored", "ignored"
		opt.AuthCredentialsFn = func(AuthCredentialsContext) (AuthCredentials, error) {
			return AuthCredentials{Username: "du", Password: "dpw"}, nil
		}
	case 4:
		credsFail = true
		opt.AuthCredentialsFn = func(AuthCredentialsContext) (AuthCredentials, error) {
			return AuthCredentials{}, verifErrCreds
		}
	}
	name := ""
	if verifChoose(2) == 1 {
		name = "cn"
		opt.ClientName = name
	}
	var tracking []string
	switch verifChoose(3) {
	case 0:
		tracking = []string{"CLIENT", "TRACKING", "ON", "OPTIN"}
	case 1:
		opt.DisableCache = true
	default:
		opt.ClientTrackingOptions = []string{"PREFIX", "a:", "BCAST"}
		tracking = []string{"CLIENT", "TRACKING", "ON", "PREFIX", "a:", "BCAST"}
	}
	if verifChoose(2) == 1 {
		opt.SelectDB = 3
	}
	extras := verifChoose(4)
	opt.ReplicaOnly = extras == 1
	opt.ClientNoTouch = extras == 2
	opt.ClientNoEvict = extras == 3
	setinfo := [][]string{{"CLIENT", "SETINFO", "LIB-NAME", LibName}, {"CLIENT", "SETINFO", "LIB-VER", LibVer}}
	switch verifChoose(verifParam("setinfo_kinds", 3)) {
	case 2:
		opt.ClientSetInfo = []string{"ln", "lv"}
		setinfo = [][]string{{"CLIENT", "SETINFO", "LIB-NAME", "ln"}, {"CLIENT", "SETINFO", "LIB-VER", "lv"}}
	case 1:
		opt.ClientSetInfo = DisableClientSetInfo
		setinfo = nil
	}
	opt.AlwaysRESP2 = verifChoose(verifParam("resp2_odds", 4)) == 0

	// reference command lists, written from the documentation
	hello := []string{"HELLO", "3"}
	if pass != "" && user == "" {
		hello = append(hello, "AUTH", "default", pass)
	} else if user != "" {
		hello = append(hello, "AUTH", user, pass)
	}
	if name != "" {
		hello = append(hello, "SETNAME", name)
	}
	tail := [][]string{}
	if opt.SelectDB != 0 {
		tail = append(tail, []string{"SELECT", strconv.Itoa(opt.SelectDB)})
	}
	if opt.ReplicaOnly {
		tail = append(tail, []string{"READONLY"})
	}
	if opt.ClientNoTouch {
		tail = append(tail, []string{"CLIENT", "NO-TOUCH", "ON"})
	}
	if opt.ClientNoEvict {
		tail = append(tail, []string{"CLIENT", "NO-EVICT", "ON"})
	}
	tail = append(tail, setinfo...)
	resp3 := [][]string{hello}
	if tracking != nil {
		resp3 = append(resp3, tracking)
	}
	resp3 = append(resp3, tail...)
	resp2 := [][]string{}
	if pass != "" && user == "" {
		resp2 = append(resp2, []string{"AUTH", pass})
	} else if user != "" {
		resp2 = append(resp2, []string{"AUTH", user, pass})
	}
	resp2 = append(resp2, []string{"HELLO", "2"})
	if name != "" {
		resp2 = append(resp2, []string{"CLIENT", "SETNAME", name})
	}
	resp2 = append(resp2, tail...)

	// the server: which step fails, and how
	helloRejected := !opt.AlwaysRESP2 && verifChoose(verifParam("reject_odds", 3)) == 0 // old server: unknown command HELLO
	failStep := -1                                             // index into the list in force; -1: none
	failKind := ""
	if verifChoose(2) == 1 {
		failStep = verifChoose(verifParam("fail_steps", 6))
		failKind = []string{"-NOAUTH Authentication required.\r\n", "-ERR generic failure\r\n"}[verifChoose(2)]
	}
	conn := newVerifConn()
	srv := newVerifServer(conn)
	verifGo("server", func() {
		verifDaemon()
		phase2 := opt.AlwaysRESP2
		idx := 0
		for {
			argv, ok := srv.next()
			if !ok {
				return
			}
			if argv[0] == "HELLO" && argv[1] == "2" || (argv[0] == "AUTH") {
				if !phase2 {
					phase2 = true
					idx = 0
				}
			}
			i := idx
			idx++
			switch {
			case argv[0] == "GET":
				srv.send("$1\r\nv\r\n")
			case !phase2 && helloRejected && argv[0] == "HELLO":
				srv.send("-ERR unknown command 'HELLO'\r\n")
			case !phase2 && helloRejected && argv[0] == "CLIENT" && argv[1] == "TRACKING":
				srv.send("-ERR unknown subcommand 'TRACKING'\r\n") // a server without HELLO has no client tracking either
			case ((phase2 && (opt.AlwaysRESP2 || helloRejected)) || (!phase2 && !helloRejected)) && i == failStep:
				srv.send(failKind)
			case argv[0] == "HELLO" && argv[1] == "3":
				srv.send("%2\r\n$5\r\nproto\r\n:3\r\n$7\r\nversion\r\n$5\r\n7.0.0\r\n")
			case argv[0] == "HELLO":
				srv.send("*4\r\n$5\r\nproto\r\n:2\r\n$7\r\nversion\r\n$5\r\n5.0.0\r\n")
			default:
				srv.send("+OK\r\n")
			}
		}
	})
	dials := 0
	p, err := _newPipe(context.Background(), func(context.Context) (net.Conn, error) {
		dials++
		return conn, nil
	}, &opt, false, false)

	if credsFail {
		verifAssert(err == verifErrCreds && p == nil && conn.closes > 0, "failing dynamic credentials fail the connection")
		for _, c := range srv.log {
			verifAssert(c[0] == "PING", "nothing but the closing PING is sent on a connection without credentials")
		}
		verifReach("credsfail")
		return
	}
	// which list was in force, and did a checked step of it fail?
	list := resp3
	usedResp2 := opt.AlwaysRESP2 || helloRejected
	if usedResp2 {
		list = resp2
	}
	checked := len(list) - len(setinfo) // the trailing CLIENT SETINFO pair is best effort
	failed := failStep >= 0 && failStep < checked && !(list[failStep][0] == "READONLY")
	if usedResp2 && !opt.DisableCache {
		verifAssert(err != nil && p == nil && conn.closes > 0, "client-side caching cannot be provided over RESP2: the connection fails instead of serving commands without it")
		verifReach("nocache")
		return
	}
	if failed {
		verifAssert(err != nil && p == nil, "a failed setup step fails the connection")
		verifAssert(conn.closes > 0, "a connection whose setup failed is closed")
		verifReach("stepfailed")
		return
	}
	verifAssert(err == nil && p != nil, "a successful setup yields a usable connection")
	// everything the server received, in order: (the RESP3 batch,) then the list in force
	var want [][]string
	if helloRejected {
		want = append(want, resp3...)
	}
	if usedResp2 {
		want = append(want, resp2...)
	} else {
		want = resp3
	}
	verifAssert(len(srv.log) == len(want), "exactly the configured setup commands are sent")
	for i := range want {
		if i < len(srv.log) {
			verifAssert(verifJoinCmd(srv.log[i]) == verifJoinCmd(want[i]), "setup command "+strconv.Itoa(i)+" is the configured one, in order")
		}
	}
	if usedResp2 {
		verifAssert(helloRejected || opt.AlwaysRESP2, "RESP2 only when the server rejected HELLO 3 or AlwaysRESP2 is set")
		verifAssert(p.version < 6, "a RESP2 connection is marked as such")
		verifReach("resp2")
	} else {
		verifAssert(p.version == 7, "server version recorded")
		verifReach("resp3")
	}
	// the first user command comes after the whole setup
	v, e := p.Do(context.Background(), verifGetCmd("k")).ToString()
	verifAssert(e == nil && v == "v", "user command served after setup")
	verifAssert(len(srv.log) == len(want)+1 && srv.log[len(want)][0] == "GET", "no user command is served before the setup is complete")
	p.Close()
}

func verifGetCmd(k string) Completed {
	return cmds.NewBuilder(cmds.NoSlot).Get().Key(k).Build()
}
