package rueidislimiter

//verif:use luasym

import (
	"context"
	"time"

	"github.com/redis/rueidis"
)

// C38: the real AllowN/Allow/Check against a Redis model that runs the real rateLimitScript text
// through the harness-side Lua interpreter. Script executions are atomic in Redis, so every
// interleaving of concurrent callers is a sequence of (caller clock, n) pairs in script order;
// caller clocks are unconstrained (a delayed caller carries an old timestamp).

const verifLimKey = PlaceholderPrefix + ":{id}"

func verifNewLimiter(r *verifRedis, limit int, window time.Duration) (RateLimiterClient, *verifScriptClient) {
	sc := &verifScriptClient{r: r}
	l, err := NewRateLimiter(RateLimiterOption{Limit: limit, Window: window, ClientBuilder: func(rueidis.ClientOption) (rueidis.Client, error) {
		return sc, nil
	}})
	verifAssert(err == nil, "limiter constructed")
	return l, sc
}

func verifWindowMs() int64 {
	switch verifChoose(3) {
	case 0:
		return 1
	case 1:
		return 1000
	}
	w := verifNondetInt64()
	verifAssume(w >= 1)
	verifAssume(w < 1<<36)
	return w
}

func verifCallLimiter(l RateLimiterClient, kind int, n int64) (Result, error) {
	switch kind {
	case 0:
		return l.Check(context.Background(), "id")
	case 1:
		return l.Allow(context.Background(), "id")
	}
	return l.AllowN(context.Background(), "id", n)
}

// VerifC38_step: one call from an arbitrary state satisfying the representation invariant of the
// two keys; ghost variable 'admitted' = units admitted so far in the current window.
func VerifC38_step() {
	limit := verifNondetInt64()
	verifAssume(limit >= 1)
	verifAssume(limit < 1<<40)
	wms := verifWindowMs()
	r := &verifRedis{}
	srv := verifNondetInt64() // the server's clock is unrelated to the callers' clocks
	verifAssume(srv > 0)
	verifAssume(srv < 1<<44)
	r.nowMs = srv
	l, sc := verifNewLimiter(r, int(limit), time.Duration(wms)*time.Millisecond)

	// pre-state: window open (both keys present, same expiry) or no window
	var c0, e0, admitted0 int64
	open := verifChoose(2) == 1
	if open {
		c0, e0, admitted0 = verifNondetInt64(), verifNondetInt64(), verifNondetInt64()
		verifAssume(c0 >= 0 && c0 < 1<<50 && e0 > 0 && e0 < 1<<44)
		verifAssume(admitted0 >= 0 && admitted0 <= c0 && admitted0 <= limit)
		verifAssume(e0+1000 > srv) // not yet expired on the server
		r.keys = append(r.keys,
			&verifRKey{name: verifLimKey, present: true, val: luaNumStr(c0), pxat: e0 + 1000},
			&verifRKey{name: verifLimKey + ":ex", present: true, val: luaNumStr(e0), pxat: e0 + 1000})
	}
	now := verifNondetInt64()
	verifAssume(now > 0)
	verifAssume(now < 1<<44)
	verifSetNowMs(now)
	kind := verifChoose(3)
	var n int64
	switch kind {
	case 1:
		n = 1
	case 2:
		n = verifNondetInt64()
		verifAssume(n < 1<<50) // beyond 2^53 Lua's doubles lose integer precision: outside the model
	}
	res, err := verifCallLimiter(l, kind, n)
	if n < 0 {
		verifAssert(err == ErrInvalidTokens && sc.evals == 0, "a negative n is refused without touching Redis")
		verifReach("negative")
		return
	}
	verifAssert(err == nil, "the call succeeds")
	verifAssert(sc.evals == 1, "one script execution per call")
	reset := !open || e0 < now
	// post-state
	kc, ke := r.key(verifLimKey), r.key(verifLimKey+":ex")
	cBase, aBase, eWant := c0, admitted0, e0
	if reset {
		cBase, aBase, eWant = 0, 0, now+wms
		verifReach("newwindow")
	} else {
		verifReach("samewindow")
	}
	if eWant+1000 > srv {
		verifAssert(kc.present && ke.present && kc.val.isNum && ke.val.isNum, "both keys exist after a call")
		verifAssert(kc.pxat == eWant+1000 && ke.pxat == eWant+1000, "both keys expire together, one second after the window")
		verifAssert(ke.val.n == eWant, "the stored window end is the one the call was counted in")
		verifAssert(kc.val.n == cBase+n, "the counter is everything requested in the window")
	}
	verifAssert(res.ResetAtMs == eWant, "ResetAtMs identifies the window the call was counted in")
	want := limit - (cBase + n)
	if want < 0 {
		want = 0
	}
	verifAssert(res.Remaining == want, "Remaining is the limit minus everything requested so far in the window, floored at 0")
	admitted := aBase
	if res.Allowed && n > 0 {
		admitted += n
		verifReach("admitted")
	}
	if !res.Allowed {
		verifReach("denied")
	}
	verifAssert(admitted <= limit, "the units admitted in one window never exceed the limit")
	verifAssert(admitted <= cBase+n, "ghost invariant re-established")
	if kind == 0 {
		verifAssert(cBase+n == cBase, "Check consumes nothing")
		verifAssert(res.Allowed == (cBase < limit), "Check reports whether anything is left")
	}
	if n > 0 && cBase+n <= limit {
		verifAssert(res.Allowed, "a request that fits in the window is admitted")
	}
}

// VerifC38_history: K calls from the empty keyspace, no invariant involved: admitted units are
// summed per reported window directly.
func VerifC38_history() {
	limit := verifNondetInt64()
	verifAssume(limit >= 1)
	verifAssume(limit < 1<<40)
	wms := verifWindowMs()
	r := &verifRedis{}
	r.nowMs = 1
	l, sc := verifNewLimiter(r, int(limit), time.Duration(wms)*time.Millisecond)
	// one reply may be lost after the server ran the script (the request is then counted once,
	// the caller sees an error and admits nothing)
	sc.lostReplies = int(verifParam("lost_replies", 1))
	k := int(verifParam("calls", 3))
	var winIDs, winSums, winEpochs []int64
	lastEpoch, requested := int64(-1), int64(0) // ghost: everything requested in the current counter epoch
	for i := 0; i < k; i++ {
		now := verifNondetInt64()
		verifAssume(now > 0)
		verifAssume(now < 1<<44)
		verifSetNowMs(now)
		// the server's clock moves forward by an arbitrary amount
		d := verifNondetInt64()
		verifAssume(d >= 0)
		verifAssume(d < 1<<40)
		r.nowMs += d
		kind := verifChoose(3)
		var n int64
		switch kind {
		case 1:
			n = 1
		case 2:
			n = verifNondetInt64()
			verifAssume(n >= 0)
			verifAssume(n < 1<<50)
		}
		res, err := verifCallLimiter(l, kind, n)
		// the counter's epoch: how often the window keys have been (re)created so far
		epoch := int64(0)
		for _, c := range r.calls {
			if c == "SET" {
				epoch++
			}
		}
		if epoch != lastEpoch {
			lastEpoch, requested = epoch, 0
		}
		requested += n
		if err != nil {
			verifAssert(err == verifErrTransport, "only the injected fault may fail a call")
			verifReach("lostreply")
			continue
		}
		wantRemaining := limit - requested
		if wantRemaining < 0 {
			wantRemaining = 0
		}
		verifAssert(res.Remaining == wantRemaining, "Remaining is the limit minus everything requested so far in the window (each request counted once)")
		if res.Allowed && n > 0 {
			found := false
			for j := range winIDs {
				if winIDs[j] == res.ResetAtMs {
					// a caller that read its clock before the window's keys expired on the server (stalled for
					// more than window + 1 s) re-creates a window carrying the same ResetAtMs
					verifAssert(winEpochs[j] == epoch, "a window's ResetAtMs is not reused for a fresh counter after the window's keys expired")
					winSums[j] += n
					found = true
					verifAssert(winSums[j] <= limit, "the units admitted in one window never exceed the limit")
				}
			}
			if !found {
				winIDs = append(winIDs, res.ResetAtMs)
				winSums = append(winSums, n)
				winEpochs = append(winEpochs, epoch)
				verifAssert(n <= limit, "the units admitted in one window never exceed the limit")
			}
			verifReach("admitted")
		}
	}
	if len(winIDs) > 1 {
		verifReach("twowindows")
	}
}
