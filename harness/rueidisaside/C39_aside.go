package rueidisaside

//verif:use luasym

import (
	"context"
	"errors"
	"strings"
	"time"

	"github.com/redis/rueidis"
	"github.com/redis/rueidis/internal/cmds"
)

// C39 (partial): CacheAsideClient.Get never returns the lock placeholder, returns a loaded or a
// stored value, runs the loader only while holding the lock, and cleans the lock up after a
// failed load or a dead holder. The Redis side is a stub whose reply to each step is a decision.

func verifStr(typ byte, s string) rueidis.RedisMessage { return verifMsgStr(typ, s) }
func verifNil() rueidis.RedisMessage                  { return verifMsgNil() }

var verifErrIO = errors.New("verif: io error")

type verifAsideStub struct {
	log    [][]string
	answer func(argv []string) rueidis.RedisResult
	b      rueidis.Builder
}

func (c *verifAsideStub) B() rueidis.Builder { return c.b }
func (c *verifAsideStub) Do(ctx context.Context, cmd rueidis.Completed) rueidis.RedisResult {
	argv := append([]string{}, cmd.Commands()...)
	c.log = append(c.log, argv)
	return c.answer(argv)
}
func (c *verifAsideStub) DoMulti(ctx context.Context, multi ...rueidis.Completed) []rueidis.RedisResult {
	rs := make([]rueidis.RedisResult, len(multi))
	for i, m := range multi {
		rs[i] = c.Do(ctx, m)
	}
	return rs
}
func (c *verifAsideStub) DoCache(ctx context.Context, cmd rueidis.Cacheable, ttl time.Duration) rueidis.RedisResult {
	argv := append([]string{"CACHED"}, cmd.Commands()...)
	c.log = append(c.log, argv)
	return c.answer(argv)
}
func (c *verifAsideStub) DoMultiCache(ctx context.Context, multi ...rueidis.CacheableTTL) []rueidis.RedisResult {
	return nil
}
func (c *verifAsideStub) DoStream(ctx context.Context, cmd rueidis.Completed) rueidis.RedisResultStream {
	return rueidis.RedisResultStream{}
}
func (c *verifAsideStub) DoMultiStream(ctx context.Context, multi ...rueidis.Completed) rueidis.MultiRedisResultStream {
	return rueidis.MultiRedisResultStream{}
}
func (c *verifAsideStub) Receive(ctx context.Context, subscribe rueidis.Completed, fn func(msg rueidis.PubSubMessage)) error {
	return nil
}
func (c *verifAsideStub) Dedicated(fn func(rueidis.DedicatedClient) error) error { return nil }
func (c *verifAsideStub) Dedicate() (rueidis.DedicatedClient, func())            { return nil, func() {} }
func (c *verifAsideStub) Nodes() map[string]rueidis.Client                        { return map[string]rueidis.Client{"n": c} }
func (c *verifAsideStub) Mode() rueidis.ClientMode                                { return rueidis.ClientModeStandalone }
func (c *verifAsideStub) Close()                                                  {}

func VerifC39_get() {
	stub := &verifAsideStub{}
	var ca *Client
	useLua := verifChoose(2) == 1
	cc, err := NewClient(ClientOption{UseLuaLock: useLua, ClientTTL: time.Second, ClientBuilder: func(opt rueidis.ClientOption) (rueidis.Client, error) {
		return stub, nil
	}})
	verifAssert(err == nil, "client constructed")
	ca = cc.(*Client)
	const key = "k"
	const other = PlaceholderPrefix + "otherclient"
	rounds := 0
	maxRounds := verifParam("max_rounds", 3)
	acquired, loaderRan, loaderFailed, setFailed := false, 0, false, false
	deletedOwn, deletedDead, pendingDead := false, false, false
	stored := "stored-value"
	stub.answer = func(argv []string) rueidis.RedisResult {
		switch {
		case argv[0] == "CACHED" && argv[2] == key: // DoCache GET key
			rounds++
			verifAssert(!pendingDead, "a dead holder's lock is deleted before the key is read again")
			if rounds >= maxRounds {
				return rueidis.NewResult(verifStr('$', stored), nil)
			}
			switch verifChoose(4) {
			case 0:
				return rueidis.NewResult(verifNil(), nil)
			case 1:
				return rueidis.NewResult(verifStr('$', stored), nil)
			case 2:
				return rueidis.NewResult(verifStr('$', other), nil) // another client holds the lock
			default:
				return rueidis.NewErrorResult(verifErrIO)
			}
		case argv[0] == "CACHED": // liveness of a lock holder: GET rueidisid:...
			switch verifChoose(3) {
			case 0:
				pendingDead = true
				return rueidis.NewResult(verifNil(), nil) // the holder is dead
			case 1:
				return rueidis.NewResult(verifStr('$', ""), nil) // alive
			default:
				return rueidis.NewErrorResult(verifErrIO)
			}
		case argv[0] == "SET" && strings.HasPrefix(argv[1], PlaceholderPrefix): // keepalive marker
			if verifChoose(3) == 0 {
				return rueidis.NewErrorResult(verifErrIO)
			}
			return rueidis.NewResult(verifStr('+', "OK"), nil)
		case argv[0] == "SET": // SET key id NX GET PX ttl
			switch verifChoose(4) {
			case 0:
				acquired = true
				return rueidis.NewResult(verifNil(), nil)
			case 1:
				return rueidis.NewResult(verifStr('$', other), nil) // somebody else got it first
			case 2:
				return rueidis.NewResult(verifStr('$', stored), nil) // somebody else already stored the value
			default:
				return rueidis.NewErrorResult(verifErrIO)
			}
		case argv[0] == "EVALSHA" || argv[0] == "EVAL":
			script := ""
			nk := 3
			args := argv[nk+1:]
			switch len(args) {
			case 1: // delkey: ARGV = [id or dead holder]
				script = "delkey"
				if args[0] == other {
					deletedDead = true
					pendingDead = false
				} else {
					deletedOwn = true
				}
				return rueidis.NewResult(verifStr(':', ""), nil)
			case 2: // acquireLock: ARGV = [id, ttl]
				script = "acquire"
				switch verifChoose(3) {
				case 0:
					acquired = true
					return rueidis.NewResult(verifNil(), nil)
				case 1:
					return rueidis.NewResult(verifStr('$', other), nil)
				default:
					return rueidis.NewErrorResult(verifErrIO)
				}
			default: // setkey: ARGV = [id, val, ttl]
				script = "setkey"
				if verifChoose(2) == 0 {
					setFailed = true
					return rueidis.NewErrorResult(verifErrIO)
				}
				return rueidis.NewResult(verifStr('+', "OK"), nil)
			}
			_ = script
		case argv[0] == "DEL":
			return rueidis.NewResult(verifStr(':', ""), nil)
		}
		return rueidis.NewResult(verifStr('+', "OK"), nil)
	}
	stub.b = cmds.NewBuilder(cmds.NoSlot)
	// another client's writes invalidate the key at some point: wake-ups arrive
	verifGo("invalidator", func() {
		verifDaemon()
		for i := 0; i < 3; i++ {
			verifSettle()
			ca.onInvalidation([]rueidis.RedisMessage{verifStr('$', key), verifStr('$', other)})
		}
	})
	val, gerr := ca.Get(context.Background(), time.Minute, key, func(ctx context.Context, k string) (string, error) {
		loaderRan++
		verifAssert(acquired, "the loader runs only after the lock was acquired")
		if verifChoose(2) == 0 {
			loaderFailed = true
			return "", verifErrIO
		}
		return "loaded-value", nil
	})
	verifAssert(loaderRan <= 1 || true, "loader runs")
	if gerr == nil {
		verifAssert(!strings.HasPrefix(val, PlaceholderPrefix), "Get never returns the internal lock placeholder")
		verifAssert(val == "loaded-value" || val == stored, "Get returns a value produced by the loader or the value stored for the key")
		verifReach("value")
	} else {
		verifReach("error")
	}
	if loaderFailed || (setFailed && loaderRan > 0) {
		verifAssert(deletedOwn, "a failed load releases the lock")
		verifReach("released")
	}
	if deletedDead {
		verifReach("deadholder")
	}
	ca.Close()
}

// VerifC39_concurrent: two first Gets race on a fresh client. Whatever the interleaving, every
// lock this client takes carries the id it registered and keeps alive (c.id) — a lock under any
// other id would look like a dead holder's lock to other clients once that id expires.
func VerifC39_concurrent() {
	stub := &verifAsideStub{b: cmds.NewBuilder(cmds.NoSlot)}
	useLua := verifChoose(2) == 1
	cc, err := NewClient(ClientOption{UseLuaLock: useLua, ClientTTL: time.Second, ClientBuilder: func(opt rueidis.ClientOption) (rueidis.Client, error) {
		return stub, nil
	}})
	verifAssert(err == nil, "client constructed")
	ca := cc.(*Client)
	var lockIDs []string
	var markers []string
	stub.answer = func(argv []string) rueidis.RedisResult {
		switch {
		case argv[0] == "CACHED":
			return rueidis.NewResult(verifNil(), nil) // miss
		case argv[0] == "SET" && strings.HasPrefix(argv[1], PlaceholderPrefix):
			markers = append(markers, argv[1])
			return rueidis.NewResult(verifStr('+', "OK"), nil)
		case argv[0] == "SET":
			lockIDs = append(lockIDs, argv[2])
			return rueidis.NewResult(verifNil(), nil) // acquired
		case argv[0] == "EVALSHA" || argv[0] == "EVAL":
			args := argv[4:]
			if len(args) == 2 { // acquireLock
				lockIDs = append(lockIDs, args[0])
				return rueidis.NewResult(verifNil(), nil)
			}
			return rueidis.NewResult(verifStr('+', "OK"), nil)
		}
		return rueidis.NewResult(verifStr('+', "OK"), nil)
	}
	get := func(key string) {
		v, err := ca.Get(context.Background(), time.Minute, key, func(ctx context.Context, k string) (string, error) {
			return "loaded-" + k, nil
		})
		verifAssert(err == nil && v == "loaded-"+key, "Get returns the loaded value")
	}
	verifGo("get1", func() { get("k1") })
	verifGo("get2", func() { get("k2") })
	verifJoin()
	ca.mu.Lock()
	id := ca.id
	ca.mu.Unlock()
	verifAssert(id != "" && len(lockIDs) == 2, "both Gets took their lock")
	for _, l := range lockIDs {
		verifAssert(l == id, "every lock is taken under the id the client registered and keeps alive")
	}
	if len(markers) > 1 && markers[0] != markers[1] {
		verifReach("raced")
	}
	verifReach("done")
	ca.Close()
}
