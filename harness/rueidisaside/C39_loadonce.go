package rueidisaside

//verif:use luasym

import (
	"context"
	"time"

	"github.com/redis/rueidis"
)

// VerifC39_loadonce: two cache-aside clients (own connection, own client-side cache) race for
// the same missing key on one Redis model: the real lock/set/delete scripts run in luasym, reads
// through DoCache are cached per connection until the server's invalidation push (delivered
// asynchronously, in order) arrives, keys expire by the virtual clock that also drives the
// clients' timers.

type verifAsideNode struct {
	sc  *verifScriptClient
	ca  *Client
	inv chan string
}

func VerifC39_loadonce() {
	red := &verifRedis{trackOptIn: true}
	red.nowMs = time.Now().UnixMilli()
	useLua := verifChoose(2) == 1
	nodes := make([]*verifAsideNode, 2)
	for i := range nodes {
		i := i
		n := &verifAsideNode{inv: make(chan string, 64)}
		n.sc = &verifScriptClient{r: red, csc: true}
		n.sc.before = func(argv []string) error {
			red.nowMs = time.Now().UnixMilli()
			red.curClient = i
			return nil
		}
		cc, err := NewClient(ClientOption{UseLuaLock: useLua, ClientTTL: 10 * time.Second, ClientBuilder: func(opt rueidis.ClientOption) (rueidis.Client, error) {
			return n.sc, nil
		}})
		verifAssert(err == nil, "client constructed")
		n.ca = cc.(*Client)
		nodes[i] = n
	}
	red.notify = func(client int, key string) { nodes[client].inv <- key }
	for _, n := range nodes {
		n := n
		verifGo("push", func() {
			verifDaemon()
			for k := range n.inv {
				n.sc.invalidate(k)
				n.ca.onInvalidation([]rueidis.RedisMessage{verifMsgStr('$', k)})
			}
		})
	}
	loads := 0
	loader := func(ctx context.Context, k string) (string, error) {
		loads++
		return "value-of-" + k, nil
	}
	vals := make([]string, 2)
	errs := make([]error, 2)
	for i, n := range nodes {
		i, n := i, n
		verifGo("get", func() {
			vals[i], errs[i] = n.ca.Get(context.Background(), time.Minute, "k", loader)
		})
	}
	verifJoin()
	for i := range nodes {
		if errs[i] != nil {
			verifLog("get " + verifItoa(int64(i)) + " err " + errs[i].Error())
		} else {
			verifLog("get " + verifItoa(int64(i)) + " val " + vals[i])
		}
		verifAssert(errs[i] == nil && vals[i] == "value-of-k", "both callers get the loaded value")
	}
	verifAssert(loads == 1, "the loader runs once while the lock holder is alive")
	k := red.key("k")
	verifAssert(k.present && !k.val.isNum && k.val.s == "value-of-k", "the loaded value is stored under the key")
	if nodes[0].sc.hits+nodes[1].sc.hits > 0 {
		verifReach("cachehit")
	}
	verifReach("once")
	for _, n := range nodes {
		n.ca.Close()
	}
}
