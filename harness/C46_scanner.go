package rueidis

import "errors"

// C46: Scanner iterates every page element in order, follows the returned cursors from 0
// until a 0 cursor, stops at the consumer's stop or at the first failing page.

var verifErrPage = errors.New("verif: page failed")

func verifScannerRun(pair bool) {
	maxPages := verifParam("max_pages", 3)
	maxElems := verifParam("max_elems", 3)
	failAt := verifChoose(maxPages + 1) // == maxPages: no failure
	stopAfter := verifNondetInt(0, maxPages*maxElems+1) // consumer stops after this many yields (large = never)
	var requested []uint64
	var returned []uint64
	var model []string // what the consumer should have seen if it never stopped
	done := false
	stopped := false
	var got []string
	calls := 0
	sc := NewScanner(func(cursor uint64) (ScanEntry, error) {
		verifAssert(!done, "no page is requested after the iteration ended")
		verifAssert(!stopped, "no page is requested after the consumer stopped")
		requested = append(requested, cursor)
		if calls == 0 {
			verifAssert(cursor == 0, "the first page is requested with cursor 0")
		} else {
			verifAssert(cursor == returned[calls-1], "each page is requested with the cursor the previous page returned")
			verifAssert(returned[calls-1] != 0, "no page is requested after the server returned cursor 0")
		}
		if calls == failAt {
			calls++
			returned = append(returned, 0)
			return ScanEntry{}, verifErrPage
		}
		n := verifChoose(maxElems + 1)
		els := make([]string, n)
		for j := range els {
			els[j] = string([]byte{'a' + byte(calls), '0' + byte(j)})
		}
		c := verifNondetUint64()
		if calls == maxPages-1 {
			c = 0 // bound: the server ends the scan at the last modelled page
		}
		if pair {
			for j := 0; j+1 < n; j += 2 {
				model = append(model, els[j]+"="+els[j+1])
			}
		} else {
			model = append(model, els...)
		}
		returned = append(returned, c)
		calls++
		return ScanEntry{Elements: els, Cursor: c}, nil
	})
	if pair {
		sc.Iter2()(func(k, v string) bool {
			verifAssert(!stopped, "nothing is yielded after the consumer stopped")
			got = append(got, k+"="+v)
			if len(got) >= stopAfter {
				stopped = true
				return false
			}
			return true
		})
	} else {
		sc.Iter()(func(v string) bool {
			verifAssert(!stopped, "nothing is yielded after the consumer stopped")
			got = append(got, v)
			if len(got) >= stopAfter {
				stopped = true
				return false
			}
			return true
		})
	}
	done = true
	// yielded sequence = the pages' elements in order, cut at the stop
	verifAssert(len(got) <= len(model), "only page elements are yielded")
	for i := range got {
		verifAssert(got[i] == model[i], "elements are yielded in page order")
	}
	failed := failAt < calls
	if !stopped {
		verifAssert(len(got) == len(model), "every element of every fetched page is yielded")
		if failed {
			verifAssert(sc.Err() == verifErrPage, "a failing page ends the iteration and is exposed through Err")
			verifReach("failed")
		} else {
			verifAssert(sc.Err() == nil, "no error after a complete scan")
			verifAssert(returned[calls-1] == 0, "a complete scan ends with the page that returned cursor 0")
			verifReach("complete")
		}
	} else {
		verifReach("stopped")
	}
}

func VerifC46_iter()  { verifScannerRun(false) }
func VerifC46_iter2() { verifScannerRun(true) }
