package rueidis

import (
	"context"
	"time"

	"github.com/redis/rueidis/internal/cmds"
)

// C31: multi-key helpers map every key to its own reply, on a real singleClient (one MGET /
// MSET / DEL command) and through the per-slot batching path used for cluster clients.

var verifKeyMenu = []string{"a", "b", "c", "{t}1", "{t}2"}

type verifKV struct {
	val     map[string]string // the server's value per key (symbolic bytes)
	missing map[string]bool
	failing map[string]bool // per-key commands on these keys are answered with an error
	lastFailed bool
	cluster bool // answer like a cluster node: a multi-key read whose keys hash to different slots is refused
}

func verifSlotOf(k string) uint16 {
	c := cmds.NewBuilder(cmds.InitSlot).Get().Key(k).Build()
	return c.Slot()
}

func (s *verifKV) crossSlot(keys []string) bool {
	if !s.cluster {
		return false
	}
	for _, k := range keys[1:] {
		if verifSlotOf(k) != verifSlotOf(keys[0]) {
			return true
		}
	}
	return false
}

func (s *verifKV) get(k string) RedisMessage {
	if s.missing[k] {
		return RedisMessage{typ: typeNull}
	}
	return strmsg(typeBlobString, s.val[k])
}

func (s *verifKV) answer(argv []string) RedisResult {
	switch argv[0] {
	case "MGET":
		if s.crossSlot(argv[1:]) {
			return verifErrReply("CROSSSLOT Keys in request don't hash to the same slot")
		}
		vs := make([]RedisMessage, 0, len(argv)-1)
		for _, k := range argv[1:] {
			vs = append(vs, s.get(k))
		}
		return NewResult(slicemsg(typeArray, vs), nil)
	case "JSON.MGET":
		if s.crossSlot(argv[1 : len(argv)-1]) {
			return verifErrReply("CROSSSLOT Keys in request don't hash to the same slot")
		}
		vs := make([]RedisMessage, 0, len(argv)-2)
		for _, k := range argv[1 : len(argv)-1] {
			vs = append(vs, s.get(k))
		}
		return NewResult(slicemsg(typeArray, vs), nil)
	case "GET", "JSON.GET":
		return NewResult(s.get(argv[1]), nil)
	case "SET", "DEL", "JSON.SET":
		if len(argv) >= 2 && s.failing[argv[1]] {
			s.lastFailed = true
			return verifErrReply("ERR key " + argv[1] + " failed")
		}
		s.lastFailed = false
		return NewResult(strmsg(typeSimpleString, "OK"), nil)
	case "MSET", "MSETNX", "JSON.MSET":
		return NewResult(RedisMessage{typ: typeInteger, intlen: 1}, nil)
	}
	return NewResult(strmsg(typeSimpleString, "OK"), nil)
}

func VerifC31_helpers() { verifC31(false) }

// VerifC31_grouping: the per-slot grouping of the cluster read helpers alone, with longer key lists.
func VerifC31_grouping() { verifC31(true) }

func verifC31(grouping bool) {
	n := 1 + verifChoose(verifParam("max_keys", 3))
	if grouping {
		n = verifParam("max_keys", 4)
	}
	keys := make([]string, n)
	srv := &verifKV{val: map[string]string{}, missing: map[string]bool{}, failing: map[string]bool{}}
	for i := range keys {
		keys[i] = verifKeyMenu[verifChoose(len(verifKeyMenu))]
	}
	for _, k := range verifKeyMenu {
		srv.val[k] = verifNondetString(1) // any value: a mix-up between keys is visible to the solver
	}
	srv.missing[verifKeyMenu[verifChoose(len(verifKeyMenu))]] = true
	srv.failing["b"] = true

	// the client: a real singleClient over a stub connection, or the generic (cluster) path
	var client Client
	var sent func() [][]string
	if !grouping && verifChoose(2) == 0 {
		sc := &verifStubConn{}
		sc.do = func(ctx context.Context, cmd Completed) RedisResult { return srv.answer(cmd.Commands()) }
		client = newSingleClientWithConn(sc, cmds.NewBuilder(cmds.NoSlot), false, verifChoose(2) == 1, newRetryer(defaultRetryDelayFn), false)
		sent = func() [][]string { return sc.log }
		verifReach("single")
	} else {
		vc := &verifClient{slot: cmds.InitSlot}
		vc.answer = srv.answer
		srv.cluster = true
		client = vc
		sent = func() [][]string { return vc.log }
		verifReach("generic")
	}
	ctx := context.Background()
	inKeys := func(k string) bool {
		for _, x := range keys {
			if x == k {
				return true
			}
		}
		return false
	}
	checkGet := func(ret map[string]RedisMessage, err error) {
		verifAssert(err == nil, "helper succeeds against an honest server")
		for k := range ret {
			verifAssert(inKeys(k), "the result has no key that was not asked for")
		}
		for _, k := range keys {
			m, ok := ret[k]
			verifAssert(ok, "every input key has an entry")
			if srv.missing[k] {
				verifAssert(m.IsNil(), "a missing key maps to a nil reply")
			} else {
				s, e := m.ToString()
				verifAssert(e == nil && s == srv.val[k], "each key maps to the server's reply for that key")
			}
		}
	}
	checkSet := func(ret map[string]error, perKey bool) {
		for k := range ret {
			verifAssert(inKeys(k), "the result has no key that was not written")
		}
		for _, k := range keys {
			e, ok := ret[k]
			verifAssert(ok, "every input key has an entry")
			if perKey {
				verifAssert((e != nil) == srv.failing[k], "each key maps to the outcome of its own command")
			} else {
				verifAssert((e != nil) == srv.lastFailed, "a single multi-key command reports its one outcome for every key")
			}
		}
	}
	_, isSingle := client.(*singleClient)
	kvs := map[string]string{}
	for _, k := range keys {
		kvs[k] = "val"
	}
	helper := 0
	if grouping {
		helper = 2 * verifChoose(2)
	} else {
		helper = verifChoose(8)
	}
	switch helper {
	case 0:
		checkGet(MGet(client, ctx, keys))
	case 1:
		checkGet(MGetCache(client, ctx, time.Minute, keys))
	case 2:
		checkGet(JsonMGet(client, ctx, keys, "$"))
	case 3:
		checkGet(JsonMGetCache(client, ctx, time.Minute, keys, "$"))
	case 4:
		checkSet(MSet(client, ctx, kvs), !isSingle)
	case 5:
		checkSet(MSetNX(client, ctx, kvs), !isSingle)
	case 6:
		checkSet(MDel(client, ctx, keys), !isSingle)
	default:
		checkSet(JsonMSet(client, ctx, kvs, "$"), !isSingle)
	}
	// every key reached the server (in some command)
	for _, k := range keys {
		found := false
		for _, argv := range sent() {
			for _, a := range argv[1:] {
				if a == k {
					found = true
				}
			}
		}
		verifAssert(found, "every key is sent to the server")
	}
}
