package rueidis

import (
	"bufio"
	"bytes"
	"strings"
)

// VerifSmoke: engine self-test harnesses (not a property).
func VerifSmokeArith() {
	x := verifNondetInt(0, 10)
	y := x*2 + 1
	verifReach("start")
	verifAssert(y != 7, "y != 7") // violated exactly for x == 3
}

func VerifSmokeBytes() {
	b := verifNondetBytes(3)
	s := string(b)
	i := strings.IndexByte(s, '{')
	if i >= 0 {
		verifReach("found")
		verifAssert(s[i] == '{', "index points at brace")
	}
	m := map[string]int{"ab": 1}
	m[s[:2]]++
	verifAssert(len(m) == 1 || s[:2] != "ab", "map")
}

func VerifSmokeResp() {
	r := bufio.NewReaderSize(bytes.NewReader([]byte("*2\r\n$3\r\nfoo\r\n:42\r\n")), 64)
	m, err := readNextMessage(r)
	verifAssert(err == nil, "no error")
	vs, _ := m.ToArray()
	verifAssert(len(vs) == 2, "two elements")
	s, _ := vs[0].ToString()
	verifAssert(s == "foo", "foo")
	n, _ := vs[1].AsInt64()
	verifAssert(n == 42, "42")
	verifReach("decoded")
}

func VerifSmokeConc() {
	ch := make(chan int)
	sum := 0
	verifGo("a", func() { ch <- 1 })
	verifGo("b", func() { ch <- 2 })
	sum += <-ch
	sum += <-ch
	verifJoin()
	verifAssert(sum == 3, "sum")
}
