package rueidis

// C17: cache serialization round-trips; truncated buffers yield ErrCacheUnmarshal.

var verifCacheTypes = []byte{typeInteger, typeNull, typeBool, typeBlobString, typeSimpleString, typeFloat,
	typeVerbatimString, typeBigNumber, typeArray, typeMap, typeSet}
var verifCacheLeaves = []byte{typeInteger, typeNull, typeBlobString, typeBool}

func VerifC17_roundtrip() {
	strlens := []int{2, 0}
	if verifParam("strlens", 2) > 2 {
		strlens = []int{2, 0, 5}
	}
	t := verifGenTree(verifCacheTypes, verifCacheLeaves, verifParam("depth", 1), verifParam("width", 2), strlens)
	m := t.msg()
	ttl := verifNondetBytes(7)
	copy(m.ttl[:], ttl)
	size := m.CacheSize()
	var out []byte
	if verifChoose(2) == 0 {
		out = m.CacheMarshal(nil)
	} else {
		out = m.CacheMarshal(make([]byte, 0, size))
	}
	verifAssert(len(out) == size, "CacheMarshal writes exactly CacheSize bytes")
	var back RedisMessage
	err := back.CacheUnmarshalView(out)
	verifAssert(err == nil, "unmarshal of a complete buffer succeeds")
	verifTreeEq(&back, t)
	for i := 0; i < 7; i++ {
		verifAssert(back.ttl[i] == ttl[i], "expiry preserved")
	}
	verifAssert(back.IsCacheHit(), "unmarshalled value is marked as a cache hit")
	verifReach("roundtrip")

	// every truncation point
	cut := verifNondetInt(0, len(out)-1)
	var tr RedisMessage
	err = tr.CacheUnmarshalView(out[:cut])
	verifAssert(err == ErrCacheUnmarshal, "truncated buffer yields ErrCacheUnmarshal")
	verifReach("truncated")
}
