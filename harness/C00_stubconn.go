package rueidis

import (
	"context"
	"time"

	"github.com/redis/rueidis/internal/cmds"
)

// verifStubConn: a stub `conn` (what the clients talk to instead of a mux).
type verifStubConn struct {
	addr      string
	do        func(ctx context.Context, cmd Completed) RedisResult
	doMulti   func(ctx context.Context, multi []Completed) []RedisResult
	doCache   func(ctx context.Context, cmd Cacheable, ttl time.Duration) RedisResult
	log       [][]string
	slog      [][]string // commands that arrived through DoStream / DoMultiStream / Receive
	closed    int
	acquired  *verifWire
	stored    int
	version   int
	dialErr   error
	receive   func(ctx context.Context, subscribe Completed, fn func(message PubSubMessage)) error
}

var _ conn = (*verifStubConn)(nil)

func (c *verifStubConn) Do(ctx context.Context, cmd Completed) RedisResult {
	c.log = append(c.log, append([]string{}, cmd.Commands()...))
	if c.do != nil {
		return c.do(ctx, cmd)
	}
	return RedisResult{}
}
func (c *verifStubConn) DoCache(ctx context.Context, cmd Cacheable, ttl time.Duration) RedisResult {
	c.log = append(c.log, append([]string{}, cmd.Commands()...))
	if c.doCache != nil {
		return c.doCache(ctx, cmd, ttl)
	}
	if c.do != nil {
		return c.do(ctx, Completed(cmd))
	}
	return RedisResult{}
}
func (c *verifStubConn) DoMulti(ctx context.Context, multi ...Completed) *redisresults {
	for _, cmd := range multi {
		c.log = append(c.log, append([]string{}, cmd.Commands()...))
	}
	if c.doMulti != nil {
		return &redisresults{s: c.doMulti(ctx, multi)}
	}
	rs := make([]RedisResult, len(multi))
	if c.do != nil {
		for i, cmd := range multi {
			rs[i] = c.do(ctx, cmd)
		}
	}
	return &redisresults{s: rs}
}
func (c *verifStubConn) DoMultiCache(ctx context.Context, multi ...CacheableTTL) *redisresults {
	rs := make([]RedisResult, len(multi))
	for i, cmd := range multi {
		rs[i] = c.DoCache(ctx, cmd.Cmd, cmd.TTL)
	}
	return &redisresults{s: rs}
}
func (c *verifStubConn) Receive(ctx context.Context, subscribe Completed, fn func(message PubSubMessage)) error {
	c.slog = append(c.slog, subscribe.Commands())
	if c.receive != nil {
		return c.receive(ctx, subscribe, fn)
	}
	return nil
}
func (c *verifStubConn) DoStream(ctx context.Context, cmd Completed) RedisResultStream {
	c.slog = append(c.slog, cmd.Commands())
	return RedisResultStream{}
}
func (c *verifStubConn) DoMultiStream(ctx context.Context, multi ...Completed) MultiRedisResultStream {
	for _, cmd := range multi {
		c.slog = append(c.slog, cmd.Commands())
	}
	return MultiRedisResultStream{}
}
func (c *verifStubConn) Info() map[string]RedisMessage { return nil }
func (c *verifStubConn) Version() int {
	if c.version != 0 {
		return c.version
	}
	return 7
}
func (c *verifStubConn) AZ() string                    { return "" }
func (c *verifStubConn) Error() error                  { return nil }
func (c *verifStubConn) Close()                        { c.closed++ }
func (c *verifStubConn) Dial() error                   { return c.dialErr }
func (c *verifStubConn) Override(conn)                 {}
func (c *verifStubConn) Acquire(ctx context.Context) wire {
	c.acquired = &verifWire{id: 1}
	return c.acquired
}
func (c *verifStubConn) Store(w wire)                  { c.stored++ }
func (c *verifStubConn) Addr() string                  { return c.addr }
func (c *verifStubConn) SetOnCloseHook(func(error))    {}
func (c *verifStubConn) OptInCmd() cmds.Completed      { return cmds.OptInCmd }
