package rueidis

import (
	"context"
	"time"

	"github.com/redis/rueidis/internal/cmds"
)

// C11: batched cache reads return results positionally, whatever mix of hits, misses and
// duplicates serves the batch. Real pipe.DoCache (MGET path), DoMultiCache, reader commit
// branches and lru store against the scripted client-side-caching server.
func VerifC11_batch() {
	conn := newVerifConn()
	p := verifNewPipe(conn, verifChoose(2) == 1)
	p.optIn = true
	server := &verifCSCServer{srv: newVerifServer(conn), gens: map[string]int{"a": 1, "b": 2, "c": 3}, pttl: -1}
	verifGo("server", server.run)
	p.background()
	ctx := context.Background()
	menu := []string{"a", "b", "c"}
	// some keys are already cached
	for _, k := range menu {
		if verifChoose(2) == 1 {
			p.DoCache(ctx, verifGetCache(k), time.Minute)
		}
	}
	// another caller owns an in-flight request for one key that is not cached, and that request
	// fails while the batch waits for it (multi-command path only)
	foreign := ""
	if verifParam("foreign", 1) == 1 && verifChoose(2) == 1 {
		k := menu[verifChoose(len(menu))]
		if v, e := p.cache.Flight(k, "GET", time.Minute, time.Now()); v.typ == 0 && e == nil {
			foreign = k
			verifGo("owner", func() { p.cache.Cancel(k, "GET", verifErrPage) })
		}
	}
	n := 2 + verifChoose(verifParam("max_keys", 3)-1)
	keys := make([]string, n)
	for i := range keys {
		keys[i] = menu[verifChoose(len(menu))]
	}
	if foreign == "" && verifChoose(2) == 0 {
		mget := Cacheable(cmds.NewBuilder(cmds.NoSlot).Mget().Key(keys...).Cache())
		arr, err := p.DoCache(ctx, mget, time.Minute).ToArray()
		verifAssert(err == nil && len(arr) == n, "MGET returns one element per key")
		for i := range arr {
			s, e := arr[i].ToString()
			verifAssert(e == nil && s == server.value(keys[i]), "element i of a cached MGET is the reply for key i")
		}
		verifReach("mget")
	} else {
		cts := make([]CacheableTTL, n)
		for i := range cts {
			cts[i] = CT(verifGetCache(keys[i]), time.Minute)
		}
		rs := p.DoMultiCache(ctx, cts...)
		verifAssert(len(rs.s) == n, "DoMultiCache returns one result per command")
		for i := range rs.s {
			s, e := rs.s[i].ToString()
			if keys[i] == foreign {
				verifAssert(e == verifErrPage || (e == nil && s == server.value(keys[i])), "a command that waited for another caller's request gets that request's outcome")
				if e != nil {
					verifReach("foreignfailed")
				}
				continue
			}
			verifAssert(e == nil && s == server.value(keys[i]), "result i of DoMultiCache is the reply to command i")
		}
		verifReach("multicache")
	}
	p.Close()
}
