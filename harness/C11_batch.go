package rueidis

import (
	"context"
	"time"

	"github.com/redis/rueidis/internal/cmds"
)

// C11: batched cache reads return results positionally, whatever mix of hits, misses and
// duplicates serves the batch. Real pipe.DoCache (MGET path), DoMultiCache, reader commit
// branches and lru store against the scripted client-side-caching server.
func VerifC11_batch() {
	conn := newVerifConn()
	p := verifNewPipe(conn, verifChoose(2) == 1)
	p.optIn = true
	server := &verifCSCServer{srv: newVerifServer(conn), gens: map[string]int{"a": 1, "b": 2, "c": 3}, pttl: -1}
	verifGo("server", server.run)
	p.background()
	ctx := context.Background()
	menu := []string{"a", "b", "c"}
	// some keys are already cached
	for _, k := range menu {
		if verifChoose(2) == 1 {
			p.DoCache(ctx, verifGetCache(k), time.Minute)
		}
	}
	n := 2 + verifChoose(verifParam("max_keys", 3)-1)
	keys := make([]string, n)
	for i := range keys {
		keys[i] = menu[verifChoose(len(menu))]
	}
	if verifChoose(2) == 0 {
		mget := Cacheable(cmds.NewBuilder(cmds.NoSlot).Mget().Key(keys...).Cache())
		arr, err := p.DoCache(ctx, mget, time.Minute).ToArray()
		verifAssert(err == nil && len(arr) == n, "MGET returns one element per key")
		for i := range arr {
			s, e := arr[i].ToString()
			verifAssert(e == nil && s == server.value(keys[i]), "element i of a cached MGET is the reply for key i")
		}
		verifReach("mget")
	} else {
		cts := make([]CacheableTTL, n)
		for i := range cts {
			cts[i] = CT(verifGetCache(keys[i]), time.Minute)
		}
		rs := p.DoMultiCache(ctx, cts...)
		verifAssert(len(rs.s) == n, "DoMultiCache returns one result per command")
		for i := range rs.s {
			s, e := rs.s[i].ToString()
			verifAssert(e == nil && s == server.value(keys[i]), "result i of DoMultiCache is the reply to command i")
		}
		verifReach("multicache")
	}
	p.Close()
}
