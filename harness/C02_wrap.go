package rueidis

import (
	"context"
	"strconv"

	"github.com/redis/rueidis/internal/cmds"
)

// VerifC02_wrap: the ring wraps around while the reader is still collecting the replies of a
// batch whose tail has not been flushed yet (batch larger than the write buffer). Two-slot ring,
// 128-byte write buffer; one caller sends a batch of 3 SETs (just over the buffer), another a single command; the server
// answers every command. Every call must return.
func VerifC02_wrap() {
	conn := newVerifConn()
	p := verifNewPipe(conn, verifChoose(2) == 1)
	srv := newVerifServer(conn)
	verifGo("server", func() {
		verifDaemon()
		for {
			if _, ok := srv.next(); !ok {
				return
			}
			srv.send("+OK\r\n")
		}
	})
	p.background()
	b := cmds.NewBuilder(cmds.NoSlot)
	// the batch's caller may give up (context cancelled at an arbitrary scheduling point) and at once
	// issue its next command, which lands in the other slot while the batch is still being served
	ctx, cancel := context.WithCancel(context.Background())
	verifGo("cancel", func() { cancel() })
	multi := make([]Completed, 3)
	for i := range multi {
		multi[i] = b.Set().Key("key-number-" + strconv.Itoa(i)).Value("value-value-value-value").Build()
	}
	rs := p.DoMulti(ctx, multi...)
	if rs.s[0].Error() == nil {
		for _, r := range rs.s {
			verifAssert(r.Error() == nil, "every command of the batch is answered")
		}
	}
	verifReach("batch")
	verifAssert(p.Do(context.Background(), b.Set().Key("other").Value("v").Build()).Error() == nil, "the next command is answered")
	verifReach("single")
	verifJoin()
	p.Close()
}
