package rueidislock

//verif:use luasym

import (
	"context"
	"strings"
	"time"

	"github.com/redis/rueidis"
)

// C34 (partial): one holder of the real locker against the Redis model (the real acquire /
// extend / delete scripts run in luasym; keys expire by the virtual clock), with other clients'
// actions (deleting or overwriting a key, followed by the invalidation push), transport errors on
// script calls and the passage of time as events.

type verifLockEnv struct {
	red    *verifRedis
	sc     *verifScriptClient
	l      *locker
	val    string // the holder's random value, learnt from the first script call
	ctx    context.Context
	faults int
	delFault bool // a transport fault hit a delete call: that key stays until it expires
}

func (e *verifLockEnv) owned() int {
	n := 0
	for i := int32(0); i < e.l.totalcnt; i++ {
		k := e.red.key(keyname(e.l.prefix, "n", i))
		if k.present && !k.val.isNum && k.val.s == e.val && e.val != "" {
			n++
		}
	}
	return n
}

func verifNewLockEnv() *verifLockEnv {
	e := &verifLockEnv{red: &verifRedis{}}
	e.sc = &verifScriptClient{r: e.red}
	e.sc.before = func(argv []string) error {
		e.red.nowMs = time.Now().UnixMilli()
		if (argv[0] == "EVALSHA" || argv[0] == "EVAL") && len(argv) >= 5 {
			if e.val == "" {
				e.val = argv[4]
			}
		}
		if argv[0] == "EVAL" {
			isDel := strings.Contains(argv[1], `"DEL"`)
			if e.faults > 0 && verifChoose(2) == 1 {
				e.faults--
				if isDel {
					e.delFault = true
				}
				verifReach("fault")
				return verifErrTransport
			}
			if isDel && e.ctx != nil {
				k := e.red.key(argv[3])
				if k.present && !k.val.isNum && k.val.s == argv[4] {
					// this call releases a key the holder owns
					if e.owned()-1 < int(e.l.majority) {
						verifAssert(e.ctx.Err() != nil, "the holder's context is done before a release that leaves it without a majority of its keys")
					}
					verifReach("release")
				}
			}
		}
		return nil
	}
	l, err := NewLocker(LockerOption{KeyMajority: 2, ClientBuilder: func(rueidis.ClientOption) (rueidis.Client, error) { return e.sc, nil }})
	verifAssert(err == nil, "locker constructed")
	e.l = l.(*locker)
	return e
}

func (e *verifLockEnv) invalidate(i int32) {
	e.l.onInvalidations([]rueidis.RedisMessage{verifMsgStr('$', keyname(e.l.prefix, "n", i))})
}

func VerifC34_holder() {
	e := verifNewLockEnv()
	e.faults = int(verifParam("faults", 1))
	// some keys may be held by another client already
	e.red.nowMs = time.Now().UnixMilli()
	for i := int32(0); i < e.l.totalcnt; i++ {
		if verifChoose(2) == 1 {
			k := e.red.key(keyname(e.l.prefix, "n", i))
			*k = verifRKey{name: k.name, present: true, val: luaS("other"), pxat: e.red.nowMs + 60000}
		}
	}
	ctx, cancel, err := e.l.TryWithContext(context.Background(), "n")
	e.ctx = ctx
	if err != nil {
		verifSettle()
		verifAssert(ctx.Err() != nil, "a failed attempt leaves no live lock context")
		if !e.delFault {
			verifAssert(e.owned() == 0, "a failed attempt releases the keys it did acquire")
		}
		verifReach("notlocked")
		return
	}
	verifAssert(e.owned() >= int(e.l.majority), "a successful attempt owns a majority of the keys")
	verifAssert(ctx.Err() == nil, "the lock context is live after a successful attempt")
	verifReach("locked")
	// the remaining keys are acquired in the background; the events below start once that is over
	verifSettle()
	events := int(verifParam("events", 2))
	for n := 0; n < events && ctx.Err() == nil; n++ {
		switch verifChoose(4) {
		case 0: // time passes: the extension timers fire
			time.Sleep(e.l.interval)
			verifSettle()
			verifReach("extended")
		case 1: // another client (or an operator) deletes one of the keys
			i := int32(verifChoose(int(e.l.totalcnt)))
			k := e.red.key(keyname(e.l.prefix, "n", i))
			*k = verifRKey{name: k.name}
			e.invalidate(i)
			verifSettle()
			verifReach("deleted")
		case 2: // another client takes a key over by force
			i := int32(verifChoose(int(e.l.totalcnt)))
			k := e.red.key(keyname(e.l.prefix, "n", i))
			*k = verifRKey{name: k.name, present: true, val: luaS("other"), pxat: time.Now().UnixMilli() + 60000}
			e.invalidate(i)
			verifSettle()
			verifReach("takenover")
		default: // a spurious invalidation (e.g. the key's tracking was flushed)
			e.invalidate(int32(verifChoose(int(e.l.totalcnt))))
			verifSettle()
		}
		if e.owned() < int(e.l.majority) {
			verifAssert(ctx.Err() != nil, "the context is cancelled promptly once the holder no longer owns a majority of its keys")
			verifReach("lost")
		}
	}
	if ctx.Err() == nil {
		verifAssert(e.owned() >= int(e.l.majority), "a live holder owns a majority")
	}
	cancel()
	verifAssert(ctx.Err() != nil, "cancel ends the lock context")
	if !e.delFault {
		verifAssert(e.owned() == 0, "after cancel returns every key of the holder is released")
	}
	verifReach("released")
}

// ---- two lockers (two clients) on one Redis: hand-over from a holder to a waiter

type verifLockClient struct {
	id  int
	l   *locker
	sc  *verifScriptClient
	inv chan []rueidis.RedisMessage // invalidation pushes in flight to this client
}

func VerifC34_handover() {
	red := &verifRedis{}
	clients := make([]*verifLockClient, 2)
	for i := range clients {
		c := &verifLockClient{id: i, inv: make(chan []rueidis.RedisMessage, 64)}
		c.sc = &verifScriptClient{r: red}
		c.sc.before = func(argv []string) error {
			red.nowMs = time.Now().UnixMilli()
			red.curClient = c.id
			return nil
		}
		l, err := NewLocker(LockerOption{KeyMajority: 2, ClientBuilder: func(rueidis.ClientOption) (rueidis.Client, error) { return c.sc, nil }})
		verifAssert(err == nil, "locker constructed")
		c.l = l.(*locker)
		clients[i] = c
	}
	// pushes are delivered asynchronously, in order per connection, by one goroutine per client
	red.notify = func(client int, key string) {
		clients[client].inv <- []rueidis.RedisMessage{verifMsgStr('$', key)}
	}
	for _, c := range clients {
		c := c
		verifGo("push", func() {
			verifDaemon()
			for m := range c.inv {
				c.l.onInvalidations(m)
			}
		})
	}
	ctx1, cancel1, err := clients[0].l.WithContext(context.Background(), "n")
	verifAssert(err == nil && ctx1.Err() == nil, "the first locker acquires the free lock")
	verifSettle()
	var ctx2 context.Context
	var cancel2 context.CancelFunc
	got2 := false
	verifGo("waiter", func() {
		var err error
		ctx2, cancel2, err = clients[1].l.WithContext(context.Background(), "n")
		verifAssert(err == nil, "the waiter acquires the lock after the release")
		verifAssert(ctx1.Err() != nil, "at most one holder's lock context is live at any moment")
		verifAssert(ctx2.Err() == nil, "the waiter's context is live once it holds the lock")
		got2 = true
	})
	if verifChoose(2) == 1 {
		verifSettle() // the waiter has tried and is parked on its gate
		verifReach("parked")
	}
	cancel1()
	verifJoin()
	verifAssert(got2, "the waiter is woken up by the release")
	cancel2()
	verifReach("handover")
}
