package rueidis

import (
	"context"
	"time"
)

// verifWire: a stub wire for the pool / mux / client harnesses. Behaviour is supplied by
// optional function fields; calls are counted.
type verifWire struct {
	id        int
	closed    int
	err       error
	stopTimer func() bool
	doFn      func(cmd Completed) RedisResult
	doMultiFn func(multi []Completed) []RedisResult
	doCacheFn func(cmd Cacheable, ttl time.Duration) RedisResult
	doMultiCacheFn func(multi []CacheableTTL) []RedisResult
	receiveFn func(ctx context.Context, subscribe Completed, fn func(PubSubMessage)) error
	calls     int
	log       []string
	hooksSet  int
	hooks     PubSubHooks
	cleaned   int
	az        string
	version   int
}

var _ wire = (*verifWire)(nil)

func (w *verifWire) Do(ctx context.Context, cmd Completed) RedisResult {
	w.calls++
	if w.doFn != nil {
		return w.doFn(cmd)
	}
	return RedisResult{}
}
func (w *verifWire) DoCache(ctx context.Context, cmd Cacheable, ttl time.Duration) RedisResult {
	w.calls++
	if w.doCacheFn != nil {
		return w.doCacheFn(cmd, ttl)
	}
	return RedisResult{}
}
func (w *verifWire) DoMulti(ctx context.Context, multi ...Completed) *redisresults {
	w.calls++
	if w.doMultiFn != nil {
		return &redisresults{s: w.doMultiFn(multi)}
	}
	return &redisresults{s: make([]RedisResult, len(multi))}
}
func (w *verifWire) DoMultiCache(ctx context.Context, multi ...CacheableTTL) *redisresults {
	w.calls++
	if w.doMultiCacheFn != nil {
		return &redisresults{s: w.doMultiCacheFn(multi)}
	}
	return &redisresults{s: make([]RedisResult, len(multi))}
}
func (w *verifWire) Receive(ctx context.Context, subscribe Completed, fn func(message PubSubMessage)) error {
	w.calls++
	if w.receiveFn != nil {
		return w.receiveFn(ctx, subscribe, fn)
	}
	return nil
}
func (w *verifWire) DoStream(ctx context.Context, pool *pool, cmd Completed) RedisResultStream {
	w.calls++
	return RedisResultStream{}
}
func (w *verifWire) DoMultiStream(ctx context.Context, pool *pool, multi ...Completed) MultiRedisResultStream {
	w.calls++
	return MultiRedisResultStream{}
}
func (w *verifWire) Info() map[string]RedisMessage { return nil }
func (w *verifWire) Version() int {
	if w.version != 0 {
		return w.version
	}
	return 7
}
func (w *verifWire) AZ() string   { return w.az }
func (w *verifWire) Error() error { return w.err }
func (w *verifWire) Close()       { w.closed++ }
func (w *verifWire) CleanSubscriptions() { w.cleaned++ }
func (w *verifWire) SetPubSubHooks(hooks PubSubHooks) <-chan error {
	w.hooksSet++
	w.hooks = hooks
	return nil
}
func (w *verifWire) GetPubSubHooks() PubSubHooks      { return w.hooks }
func (w *verifWire) SetOnCloseHook(fn func(error))    {}
func (w *verifWire) StopTimer() bool {
	if w.stopTimer != nil {
		return w.stopTimer()
	}
	return true
}
func (w *verifWire) ResetTimer() bool { return true }
