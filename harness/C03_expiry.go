package rueidis

import (
	"context"
	"time"
)

// C03 (pipe layer): the clients re-send a command unconditionally when a call completes with
// errConnExpired, so the pipe must never complete with that error a command the server has
// already received (= may have executed).
func VerifC03_expiry() {
	conn := newVerifConn()
	srv := newVerifServer(conn)
	p := verifNewPipe(conn, verifChoose(2) == 1)
	p.lftm = time.Minute
	p.lftmTimer = time.AfterFunc(p.lftm, p.expired) // as _newPipe does for ConnLifetime
	if verifChoose(2) == 1 {
		p.background()
	}
	slow := verifChoose(2) == 1
	verifGo("server", func() {
		verifDaemon()
		for {
			argv, ok := srv.next()
			if !ok {
				return
			}
			if argv[0] == "PING" {
				if !slow {
					srv.send("+PONG\r\n")
				}
				continue
			}
			if !slow {
				srv.send(":1\r\n")
			}
			// a slow server has received (and will execute) the command but its reply takes
			// longer than the connection's remaining lifetime plus Close's grace period
		}
	})
	r := p.Do(context.Background(), verifIDCmd(7))
	received := false
	for _, argv := range srv.log {
		if argv[0] == "ID" {
			received = true
		}
	}
	if r.NonRedisError() == errConnExpired {
		verifAssert(!received, "a command the server has already received is never completed with errConnExpired (clients re-send on that error)")
		verifReach("expired")
	} else if r.NonRedisError() == nil {
		verifReach("served")
	} else {
		verifReach("failed")
	}
}
