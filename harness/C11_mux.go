package rueidis

import (
	"context"
	"time"

	"github.com/redis/rueidis/internal/cmds"
)

// C11 (multiplexed connections): real mux.DoMultiCache — per-connection batching by
// slot&mask with index maps and the parallel refill — over four stub wires. Each wire
// answers command j of its sub-batch with "<key>@<wire id>", so a result landing at the
// wrong position or a command sent through the wrong connection is visible.
func VerifC11_mux() {
	made := 0
	mkWire := func(ctx context.Context) wire {
		made++
		w := &verifWire{id: made}
		w.doMultiCacheFn = func(multi []CacheableTTL) []RedisResult {
			rs := make([]RedisResult, len(multi))
			for i, c := range multi {
				rs[i] = NewResult(strmsg(typeBlobString, c.Cmd.Commands()[1]), nil)
			}
			return rs
		}
		return w
	}
	opt := &ClientOption{BlockingPoolSize: 2, PipelineMultiplex: 2}
	m := newMux("dst", opt, (*verifWire)(nil), &verifWire{id: -1, err: ErrClosing}, mkWire, mkWire)
	ctx := context.Background()
	menu := []string{"a", "b", "c", "d", "e", "f"}
	n := 2 + verifChoose(int(verifParam("max_keys", 4))-1)
	keys := make([]string, n)
	cts := make([]CacheableTTL, n)
	for i := range keys {
		keys[i] = menu[verifChoose(len(menu))]
		cts[i] = CT(Cacheable(cmds.NewBuilder(cmds.InitSlot).Get().Key(keys[i]).Cache()), time.Minute)
	}
	rs := m.DoMultiCache(ctx, cts...)
	verifAssert(len(rs.s) == n, "mux.DoMultiCache returns one result per command")
	for i := range rs.s {
		s, e := rs.s[i].ToString()
		verifAssert(e == nil && s == keys[i], "result i of mux.DoMultiCache is the reply to command i")
	}
	verifReach("muxmulticache")
}
