package rueidiscompat

import (
	"context"
	"errors"
	"time"

	"github.com/redis/rueidis"
	"github.com/redis/rueidis/internal/cmds"
	"github.com/redis/rueidis/mock"
)

// C41: Pipeline.Exec / TxPipeline.Exec / Discard with a stub client; the queued program (which
// adapter command at each position) and every reply outcome are decisions.

var verifErrIO = errors.New("verif: io error")

type verifCompatStub struct {
	calls [][][]string // one entry per DoMulti call
	reply func(call int, multi [][]string) []rueidis.RedisResult
}

func (c *verifCompatStub) B() rueidis.Builder { return cmds.NewBuilder(cmds.NoSlot) }
func (c *verifCompatStub) Do(ctx context.Context, cmd rueidis.Completed) rueidis.RedisResult {
	verifFail("a pipeline never sends a single command on its own")
	return rueidis.RedisResult{}
}
func (c *verifCompatStub) DoMulti(ctx context.Context, multi ...rueidis.Completed) []rueidis.RedisResult {
	argvs := make([][]string, len(multi))
	for i, m := range multi {
		if !m.IsEmpty() {
			argvs[i] = append([]string{}, m.Commands()...)
		}
	}
	c.calls = append(c.calls, argvs)
	return c.reply(len(c.calls)-1, argvs)
}
func (c *verifCompatStub) DoCache(ctx context.Context, cmd rueidis.Cacheable, ttl time.Duration) rueidis.RedisResult {
	verifFail("a pipeline never uses the client-side cache")
	return rueidis.RedisResult{}
}
func (c *verifCompatStub) DoMultiCache(ctx context.Context, multi ...rueidis.CacheableTTL) []rueidis.RedisResult {
	verifFail("a pipeline never uses the client-side cache")
	return nil
}
func (c *verifCompatStub) DoStream(ctx context.Context, cmd rueidis.Completed) rueidis.RedisResultStream {
	return rueidis.RedisResultStream{}
}
func (c *verifCompatStub) DoMultiStream(ctx context.Context, multi ...rueidis.Completed) rueidis.MultiRedisResultStream {
	return rueidis.MultiRedisResultStream{}
}
func (c *verifCompatStub) Receive(ctx context.Context, subscribe rueidis.Completed, fn func(msg rueidis.PubSubMessage)) error {
	return nil
}
func (c *verifCompatStub) Dedicated(fn func(rueidis.DedicatedClient) error) error { return nil }
func (c *verifCompatStub) Dedicate() (rueidis.DedicatedClient, func())            { return nil, func() {} }
func (c *verifCompatStub) Nodes() map[string]rueidis.Client                        { return map[string]rueidis.Client{"n": c} }
func (c *verifCompatStub) Mode() rueidis.ClientMode                                { return rueidis.ClientModeStandalone }
func (c *verifCompatStub) Close()                                                  {}

// one queued command of the program
type verifQueued struct {
	kind    int
	key     string
	cmder   Cmder
	outcome int // 0 value, 1 redis error, 2 nil, 3 transport error
}

const verifKinds = 8

func verifKeyOf(i int) string { return "k" + string(rune('0'+i)) }

func verifQueue(p Pipeliner, kind, i int) Cmder {
	ctx := context.Background()
	k := verifKeyOf(i)
	switch kind {
	case 0:
		return p.Get(ctx, k)
	case 1:
		return p.Incr(ctx, k)
	case 2:
		return p.Set(ctx, k, "v", 0)
	case 3:
		return p.SetNX(ctx, k, "v", 0)
	case 4:
		return p.LRange(ctx, k, 0, -1)
	case 5:
		return p.HGetAll(ctx, k)
	case 6:
		return p.Do(ctx, "GETDEL", k)
	default:
		return p.IncrByFloat(ctx, k, 1.5)
	}
}

// the server's reply element for queued command i
func verifReplyMsg(kind, i, outcome int) rueidis.RedisMessage {
	switch outcome {
	case 1:
		return mock.RedisError("MYERR e" + string(rune('0'+i)))
	case 2:
		return mock.RedisNil()
	}
	switch kind {
	case 0, 6:
		return mock.RedisBlobString("val" + string(rune('0'+i)))
	case 1:
		return mock.RedisInt64(int64(100 + i))
	case 2:
		return mock.RedisString("OK")
	case 3:
		return mock.RedisInt64(1)
	case 4:
		return mock.RedisArray(mock.RedisBlobString("e"+string(rune('0'+i))), mock.RedisBlobString("f"))
	case 5:
		return mock.RedisMap(map[string]rueidis.RedisMessage{"f" + string(rune('0'+i)): mock.RedisBlobString("x")})
	default:
		return mock.RedisBlobString(string(rune('0'+i)) + ".5")
	}
}

// what the caller must observe on the Cmder of queued command i
func verifExpect(q verifQueued, i int) {
	err := q.cmder.Err()
	switch q.outcome {
	case 1:
		_, isRedisErr := err.(*rueidis.RedisError)
		if err != nil {
			verifLog("rediserr " + err.Error())
		}
		verifAssert(err != nil && isRedisErr && err.Error() == "MYERR e"+string(rune('0'+i)), "a command's Redis error is reported on that command's Cmder")
		return
	case 2:
		if q.kind == 3 { // go-redis semantics: SETNX answered with nil means "not set"
			verifAssert(err == nil && !q.cmder.(*BoolCmd).Val(), "a nil reply to a boolean command is false")
			return
		}
		verifAssert(err != nil && err == Nil, "a nil reply is reported as Nil on that command's Cmder")
		return
	case 3:
		verifAssert(err == verifErrIO, "a transport error is reported on that command's Cmder")
		return
	}
	verifAssert(err == nil, "a successful reply leaves no error on that command's Cmder")
	switch q.kind {
	case 0:
		verifAssert(q.cmder.(*StringCmd).Val() == "val"+string(rune('0'+i)), "result of queued command i is the i-th reply")
	case 6:
		v, _ := q.cmder.(*Cmd).Text()
		verifAssert(v == "val"+string(rune('0'+i)), "result of queued command i is the i-th reply")
	case 1:
		verifAssert(q.cmder.(*IntCmd).Val() == int64(100+i), "result of queued command i is the i-th reply")
	case 2:
		verifAssert(q.cmder.(*StatusCmd).Val() == "OK", "result of queued command i is the i-th reply")
	case 3:
		verifAssert(q.cmder.(*BoolCmd).Val(), "result of queued command i is the i-th reply")
	case 4:
		v := q.cmder.(*StringSliceCmd).Val()
		verifAssert(len(v) == 2 && v[0] == "e"+string(rune('0'+i)), "result of queued command i is the i-th reply")
	case 5:
		v := q.cmder.(*StringStringMapCmd).Val()
		verifAssert(len(v) == 1 && v["f"+string(rune('0'+i))] == "x", "result of queued command i is the i-th reply")
	default:
		verifAssert(q.cmder.(*FloatCmd).Val() == float64(i)+0.5, "result of queued command i is the i-th reply")
	}
}

func verifBuildProgram(p Pipeliner, n int, txMode bool) []verifQueued {
	prog := make([]verifQueued, n)
	for i := range prog {
		prog[i].kind = verifChoose(verifKinds)
		prog[i].cmder = verifQueue(p, prog[i].kind, i)
		if prog[i].kind != 6 {
			verifAssert(prog[i].cmder.Err() != nil, "a queued command is not executed before Exec")
		}
		if txMode {
			prog[i].outcome = verifChoose(3)
		} else {
			prog[i].outcome = verifChoose(4)
		}
	}
	return prog
}

func verifCheckSent(sent [][]string, prog []verifQueued, off int) {
	for i, q := range prog {
		argv := sent[off+i]
		verifAssert(len(argv) >= 2 && argv[1] == verifKeyOf(i), "queued commands are sent in queue order")
		want := [...]string{"GET", "INCR", "SET", "SETNX", "LRANGE", "HGETALL", "GETDEL", "INCRBYFLOAT"}[q.kind]
		verifAssert(argv[0] == want, "the command sent is the one queued")
	}
}

func VerifC41_pipeline() {
	stub := &verifCompatStub{}
	n := verifChoose(int(verifParam("max_cmds", 3))) + 1
	p := NewAdapter(stub).Pipeline()
	var prog []verifQueued
	stub.reply = func(call int, multi [][]string) []rueidis.RedisResult {
		verifAssert(call == 0, "Exec uses one round trip")
		verifAssert(len(multi) == len(prog), "exactly the queued commands are sent")
		verifCheckSent(multi, prog, 0)
		rs := make([]rueidis.RedisResult, len(multi))
		for i, q := range prog {
			if q.outcome == 3 {
				rs[i] = mock.ErrorResult(verifErrIO)
			} else {
				rs[i] = mock.Result(verifReplyMsg(q.kind, i, q.outcome))
			}
		}
		return rs
	}
	discardFirst := verifChoose(2) == 1
	if discardFirst {
		// queue something, discard it: nothing of it may be sent or reported
		junk := p.Get(context.Background(), "junk")
		p.Discard()
		verifAssert(p.Len() == 0, "Discard drops every queued command")
		_ = junk
		verifReach("discard")
	}
	prog = verifBuildProgram(p, n, false)
	verifAssert(p.Len() == n, "Len counts the queued commands")
	rets, err := p.Exec(context.Background())
	verifAssert(len(stub.calls) == 1, "Exec sends the batch")
	verifAssert(len(rets) == n, "Exec returns one Cmder per queued command")
	var first error
	for i, q := range prog {
		verifAssert(rets[i] == q.cmder, "Exec returns the Cmders in queue order")
		verifExpect(q, i)
		if first == nil {
			first = q.cmder.Err()
		}
	}
	verifAssert(err == first, "Exec returns the first error in queue order")
	if first != nil {
		verifReach("firsterr")
	} else {
		verifReach("allok")
	}
	verifAssert(p.Len() == 0, "the queue is empty after Exec")
	rets2, err2 := p.Exec(context.Background())
	verifAssert(len(rets2) == 0 && err2 == nil && len(stub.calls) == 1, "an empty pipeline sends nothing")
}

func VerifC41_tx() {
	stub := &verifCompatStub{}
	n := verifChoose(int(verifParam("max_cmds", 3))) + 1
	p := NewAdapter(stub).TxPipeline()
	var prog []verifQueued
	// 0: EXEC returns the array, 1: WATCH aborted (EXEC returns nil), 2: the connection failed
	txOutcome := verifChoose(4) // 3: EXEC answers with an error (EXECABORT)
	stub.reply = func(call int, multi [][]string) []rueidis.RedisResult {
		verifAssert(call == 0, "Exec uses one round trip")
		verifAssert(len(multi) == len(prog)+2, "MULTI, the queued commands and EXEC are sent as one batch")
		verifAssert(len(multi[0]) == 1 && multi[0][0] == "MULTI", "the batch starts with MULTI")
		verifAssert(len(multi[len(multi)-1]) == 1 && multi[len(multi)-1][0] == "EXEC", "the batch ends with EXEC")
		verifCheckSent(multi, prog, 1)
		rs := make([]rueidis.RedisResult, len(multi))
		if txOutcome == 2 {
			for i := range rs {
				rs[i] = mock.ErrorResult(verifErrIO)
			}
			return rs
		}
		rs[0] = mock.Result(mock.RedisString("OK"))
		elems := make([]rueidis.RedisMessage, len(prog))
		for i, q := range prog {
			rs[i+1] = mock.Result(mock.RedisString("QUEUED"))
			elems[i] = verifReplyMsg(q.kind, i, q.outcome)
		}
		if txOutcome == 1 {
			rs[len(rs)-1] = mock.Result(mock.RedisNil())
		} else if txOutcome == 3 {
			rs[len(rs)-1] = mock.Result(mock.RedisError("EXECABORT discarded"))
		} else {
			rs[len(rs)-1] = mock.Result(mock.RedisArray(elems...))
		}
		return rs
	}
	if verifChoose(2) == 1 {
		p.Get(context.Background(), "junk")
		p.Discard()
		verifAssert(p.Len() == 0, "Discard drops every queued command")
		verifReach("discard")
	}
	prog = verifBuildProgram(p, n, true)
	rets, err := p.Exec(context.Background())
	verifAssert(len(stub.calls) == 1, "Exec sends the batch")
	verifAssert(len(rets) == n, "Exec returns one Cmder per queued command")
	for i, q := range prog {
		verifAssert(rets[i] == q.cmder, "Exec returns the Cmders in queue order")
	}
	switch txOutcome {
	case 1:
		verifAssert(err == TxFailedErr, "an aborted transaction is reported as TxFailedErr")
		verifReach("aborted")
	case 2:
		verifAssert(err == verifErrIO, "a transport failure is reported")
		verifReach("failed")
	case 3:
		_, isRedisErr := err.(*rueidis.RedisError)
		verifAssert(err != nil && isRedisErr && err.Error() == "EXECABORT discarded", "an error reply to EXEC is reported")
		verifReach("execerr")
	default:
		var first error
		for i, q := range prog {
			verifExpect(q, i)
			if first == nil {
				first = q.cmder.Err()
			}
		}
		verifAssert(err == first, "Exec returns the first error in queue order")
		verifReach("executed")
	}
	verifAssert(p.Len() == 0, "the queue is empty after Exec")
}
