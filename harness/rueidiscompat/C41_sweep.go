package rueidiscompat

import (
	"context"

	"github.com/redis/rueidis"
	"github.com/redis/rueidis/mock"
)

// VerifC41_sweep: every Cmder-returning Pipeline method (driver-generated list) queues exactly
// one command and one Cmder, so that the i-th reply belongs to the i-th Cmder whatever was
// queued before it.
func verifSweepCall(p *Pipeline, k int, emptyVariadic bool) (name string, ret Cmder, panicked bool) {
	defer func() {
		if r := recover(); r != nil {
			panicked = true
		}
	}()
	name, ret = verifGenQueue(p, k, emptyVariadic)
	return
}

func VerifC41_sweep() {
	lo, hi := int(verifParam("from", 0)), int(verifParam("to", verifGenPipelineMethods))
	if hi > verifGenPipelineMethods {
		hi = verifGenPipelineMethods
	}
	k := lo + verifChoose(hi-lo)
	emptyVariadic := verifChoose(2) == 1
	stub := &verifCompatStub{}
	p := newPipeline(stub)
	px := p.comp.client.(*proxy)
	name, ret, panicked := verifSweepCall(p, k, emptyVariadic)
	verifLog("method " + name)
	if panicked {
		// the adapter refuses some argument combinations by panicking (documented for options
		// it cannot express); nothing may have been queued half-way
		verifAssert(len(px.cmds) == len(p.rets), "a refused command leaves the queue consistent")
		verifReach("refused")
		return
	}
	verifAssert(ret != nil, "a queued command hands out its Cmder")
	if len(p.rets) == 0 && len(px.cmds) == 0 && ret.Err() != nil && ret.Err() != errPipelineNotExecuted {
		verifReach("refused") // refused with an error on the Cmder: nothing queued
		return
	}
	verifAssert(len(p.rets) == 1 && p.rets[0] == ret, "each queued adapter command registers exactly one Cmder")
	verifAssert(len(px.cmds) == 1, "each queued adapter command contributes exactly one command to the batch")
	marker := p.Incr(context.Background(), "marker")
	stub.reply = func(call int, multi [][]string) []rueidis.RedisResult {
		verifAssert(len(multi) == 2 && multi[1][0] == "INCR", "the batch is the queue")
		return []rueidis.RedisResult{mock.Result(mock.RedisError("MYERR first")), mock.Result(mock.RedisInt64(4242))}
	}
	rets, err := p.Exec(context.Background())
	verifAssert(len(rets) == 2 && rets[0] == ret && rets[1] == marker, "Exec returns the Cmders in queue order")
	verifAssert(marker.Err() == nil && marker.Val() == 4242, "the command queued second receives the second reply")
	verifAssert(ret.Err() != nil && ret.Err().Error() == "MYERR first" && err == ret.Err(), "the command queued first receives the first reply")
	verifReach("queued")
}
