package rueidis

import (
	"strconv"
	"unsafe"
)

// C16: typed accessors return exactly what the reply encodes. Model values (symbolic where the
// accessor only transports them) are encoded into the RESP2 and RESP3 reply shapes by
// reference encoders written here, then read back with the real accessor.

func verifBlob(s string) RedisMessage { return strmsg(typeBlobString, s) }

func verifSym(n int) string { return verifNondetString(n) }

// digits: a symbolic decimal number of k digits (no leading zero) and its value.
func verifDigits(k int) (string, int64) {
	b := verifNondetBytes(k)
	var v int64
	for i, d := range b {
		verifAssume(d >= '0' && d <= '9')
		if i == 0 && k > 1 {
			verifAssume(d != '0')
		}
		v = v*10 + int64(d-'0')
	}
	return string(b), v
}

func VerifC16_scalars() {
	switch verifChoose(7) {
	case 0: // integers: RESP3 ':' and RESP2/blob decimal text
		txt, v := verifDigits(1 + verifChoose(3))
		neg := verifNondetBool()
		if neg {
			txt, v = "-"+txt, -v
		}
		for _, m := range []RedisMessage{{typ: typeInteger, intlen: v}, verifBlob(txt), strmsg(typeSimpleString, txt)} {
			got, err := m.AsInt64()
			verifAssert(err == nil && got == v, "AsInt64 returns the encoded integer")
		}
		m := RedisMessage{typ: typeInteger, intlen: v}
		got, err := m.ToInt64()
		verifAssert(err == nil && got == v, "ToInt64 returns the integer reply")
		if !neg {
			mb := verifBlob(txt)
			u, err := mb.AsUint64()
			verifAssert(err == nil && u == uint64(v), "AsUint64 returns the encoded integer")
		}
		verifReach("int")
		// boundary classes: one symbolic last digit around MaxInt64 and MaxUint64, and negative text
		d := verifNondetByte()
		verifAssume(d >= '0')
		verifAssume(d <= '9')
		dv := uint64(d - '0')
		switch verifChoose(3) {
		case 0: // 922337203685477580d : MaxInt64 is ...807
			mb := verifBlob("922337203685477580" + string([]byte{d}))
			u, err := mb.AsUint64()
			verifAssert(err == nil && u == 9223372036854775800+dv, "AsUint64 returns the encoded integer beyond MaxInt64")
			i, err := mb.AsInt64()
			if dv <= 7 {
				verifAssert(err == nil && uint64(i) == 9223372036854775800+dv, "AsInt64 returns the encoded integer up to MaxInt64")
			} else {
				verifAssert(err != nil, "AsInt64 rejects text beyond MaxInt64")
			}
			verifReach("int63")
		case 1: // 1844674407370955161d : MaxUint64 is ...615
			mb := verifBlob("1844674407370955161" + string([]byte{d}))
			u, err := mb.AsUint64()
			if dv <= 5 {
				verifAssert(err == nil && u == 18446744073709551610+dv, "AsUint64 returns the encoded integer up to MaxUint64")
			} else {
				verifAssert(err != nil, "AsUint64 rejects text beyond MaxUint64")
			}
			// a scan cursor is read the same way
			ms := RedisMessage{typ: typeArray, array: unsafe.SliceData([]RedisMessage{mb, {typ: typeArray}}), intlen: 2}
			e, err := ms.AsScanEntry()
			if dv <= 5 {
				verifAssert(err == nil && e.Cursor == 18446744073709551610+dv, "AsScanEntry keeps a cursor with the top bit set")
			}
			verifReach("uint64")
		default: // negative text is not an unsigned integer
			mb := verifBlob("-" + string([]byte{d}))
			_, err := mb.AsUint64()
			verifAssert(err != nil || dv == 0, "AsUint64 rejects negative text")
			verifReach("neguint")
		}
	case 1: // booleans
		b := verifNondetBool()
		n := int64(0)
		if b {
			n = 1
		}
		m := RedisMessage{typ: typeBool, intlen: n}
		got, err := m.ToBool()
		verifAssert(err == nil && got == b, "ToBool returns the RESP3 boolean")
		got, err = m.AsBool()
		verifAssert(err == nil && got == b, "AsBool on a boolean")
		iv := verifNondetInt64()
		mi := RedisMessage{typ: typeInteger, intlen: iv}
		got, err = mi.AsBool()
		verifAssert(err == nil && got == (iv != 0), "AsBool on an integer: non-zero is true")
		s := verifSym(2)
		ms := strmsg(typeSimpleString, s)
		got, err = ms.AsBool()
		verifAssert(err == nil && got == (s == "OK"), "AsBool on a string: exactly OK is true")
		verifReach("bool")
	case 2: // strings and bytes
		s := verifSym(verifChoose(4))
		for _, t := range []byte{typeBlobString, typeSimpleString, typeVerbatimString} {
			m := strmsg(t, s)
			got, err := m.ToString()
			verifAssert(err == nil && got == s, "ToString returns the payload")
			bs, err := m.AsBytes()
			verifAssert(err == nil && string(bs) == s, "AsBytes returns the payload")
		}
		verifReach("string")
	case 3: // string / int / bool slices preserve order
		n := verifChoose(4)
		vs := make([]RedisMessage, n)
		ss := make([]string, n)
		for i := range vs {
			ss[i] = verifSym(1)
			vs[i] = verifBlob(ss[i])
		}
		for _, t := range []byte{typeArray, typeSet} {
			m := slicemsg(t, vs)
			got, err := m.AsStrSlice()
			verifAssert(err == nil && len(got) == n, "AsStrSlice keeps every element")
			for i := range got {
				verifAssert(got[i] == ss[i], "AsStrSlice keeps the order")
			}
			arr, err := m.ToArray()
			verifAssert(err == nil && len(arr) == n, "ToArray keeps every element")
		}
		is := make([]RedisMessage, n)
		iv := make([]int64, n)
		for i := range is {
			iv[i] = verifNondetInt64()
			is[i] = RedisMessage{typ: typeInteger, intlen: iv[i]}
		}
		gi, err := (&RedisMessage{}).AsIntSlice()
		_ = gi
		_ = err
		mi := slicemsg(typeArray, is)
		gotI, err := mi.AsIntSlice()
		verifAssert(err == nil && len(gotI) == n, "AsIntSlice keeps every element")
		for i := range gotI {
			verifAssert(gotI[i] == iv[i], "AsIntSlice keeps order and values")
		}
		verifReach("slices")
	case 4: // maps: RESP3 map and RESP2 flat array; a repeated field keeps its last value
		n := 1 + verifChoose(3)
		ks := make([]string, n)
		vsS := make([]string, n)
		flat := make([]RedisMessage, 0, 2*n)
		for i := 0; i < n; i++ {
			ks[i], vsS[i] = verifSym(1), verifSym(1)
			flat = append(flat, verifBlob(ks[i]), verifBlob(vsS[i]))
		}
		for _, t := range []byte{typeMap, typeArray} {
			m := slicemsg(t, flat)
			got, err := m.AsStrMap()
			verifAssert(err == nil, "AsStrMap accepts both reply shapes")
			for i := 0; i < n; i++ {
				last := i
				for j := i + 1; j < n; j++ {
					if ks[j] == ks[i] {
						last = j
					}
				}
				verifAssert(got[ks[i]] == vsS[last], "AsStrMap maps each field to its (last) value")
			}
			mm, err := m.AsMap()
			verifAssert(err == nil && len(mm) <= n, "AsMap accepts both reply shapes")
			for i := 0; i < n; i++ {
				e, ok := mm[ks[i]]
				verifAssert(ok, "AsMap keeps every field")
				_ = e
			}
		}
		verifReach("maps")
	case 5: // ZSCORE pairs: RESP2 flat [member, score, ...] and RESP3 [[member, score], ...]
		n := 1 + verifChoose(2)
		mem := make([]string, n)
		sc := []string{"1.5", "-2", "3e2"}
		scv := []float64{1.5, -2, 300}
		flat := []RedisMessage{}
		nested := []RedisMessage{}
		for i := 0; i < n; i++ {
			mem[i] = verifSym(1)
			flat = append(flat, verifBlob(mem[i]), verifBlob(sc[i]))
			nested = append(nested, slicemsg(typeArray, []RedisMessage{verifBlob(mem[i]), strmsg(typeFloat, sc[i])}))
		}
		for _, m := range []RedisMessage{slicemsg(typeArray, flat), slicemsg(typeArray, nested)} {
			got, err := m.AsZScores()
			verifAssert(err == nil && len(got) == n, "AsZScores returns one entry per member in both shapes")
			for i := range got {
				verifAssert(got[i].Member == mem[i] && got[i].Score == scv[i], "AsZScores keeps members, scores and order")
			}
		}
		verifReach("zscores")
	default: // SCAN page and stream entries
		cur, cv := verifDigits(1 + verifChoose(2))
		els := []string{verifSym(1), verifSym(1)}
		page := slicemsg(typeArray, []RedisMessage{verifBlob(cur), slicemsg(typeArray, []RedisMessage{verifBlob(els[0]), verifBlob(els[1])})})
		e, err := page.AsScanEntry()
		verifAssert(err == nil && e.Cursor == uint64(cv) && len(e.Elements) == 2 && e.Elements[0] == els[0] && e.Elements[1] == els[1], "AsScanEntry returns the cursor and the elements in order")
		id, f, v := verifSym(2), verifSym(1), verifSym(1)
		for _, t := range []byte{typeArray, typeMap} {
			entry := slicemsg(typeArray, []RedisMessage{verifBlob(id), slicemsg(t, []RedisMessage{verifBlob(f), verifBlob(v)})})
			x, err := entry.AsXRangeEntry()
			verifAssert(err == nil && x.ID == id && len(x.FieldValues) == 1 && x.FieldValues[f] == v, "AsXRangeEntry returns id and fields in both shapes")
			if t == typeArray { // stream entries carry their fields as a flat array in both protocol versions
				xs, err := entry.AsXRangeSlice()
				verifAssert(err == nil && xs.ID == id && len(xs.FieldValues) == 1 && xs.FieldValues[0].Field == f && xs.FieldValues[0].Value == v, "AsXRangeSlice returns id and ordered fields")
			}
		}
		key := verifSym(1)
		pop := slicemsg(typeArray, []RedisMessage{verifBlob(key), slicemsg(typeArray, []RedisMessage{verifBlob(els[0]), verifBlob(els[1])})})
		kv, err := pop.AsLMPop()
		verifAssert(err == nil && kv.Key == key && len(kv.Values) == 2 && kv.Values[0] == els[0] && kv.Values[1] == els[1], "AsLMPop returns the key and its values in order")
		_ = strconv.Itoa
		verifReach("structured")
	}
}

func verifKVMap(typ byte, kv ...RedisMessage) RedisMessage { return slicemsg(typ, kv) }

func VerifC16_structured() {
	switch verifChoose(5) {
	case 0: // XREAD: RESP3 map {stream: entries} and RESP2 array [[stream, entries]]
		stream, id, f, v := verifSym(1), verifSym(2), verifSym(1), verifSym(1)
		entries := slicemsg(typeArray, []RedisMessage{slicemsg(typeArray, []RedisMessage{verifBlob(id), slicemsg(typeArray, []RedisMessage{verifBlob(f), verifBlob(v)})})})
		r3 := verifKVMap(typeMap, verifBlob(stream), entries)
		r2 := slicemsg(typeArray, []RedisMessage{slicemsg(typeArray, []RedisMessage{verifBlob(stream), entries})})
		for _, m := range []RedisMessage{r3, r2} {
			got, err := m.AsXRead()
			verifAssert(err == nil && len(got) == 1 && len(got[stream]) == 1, "AsXRead returns the stream and its entries in both shapes")
			verifAssert(got[stream][0].ID == id && got[stream][0].FieldValues[f] == v, "AsXRead keeps id and fields")
			gs, err := m.AsXReadSlices()
			verifAssert(err == nil && len(gs[stream]) == 1 && gs[stream][0].ID == id && gs[stream][0].FieldValues[0].Field == f && gs[stream][0].FieldValues[0].Value == v, "AsXReadSlices keeps id and ordered fields")
		}
		verifReach("xread")
	case 1: // FT.SEARCH: RESP2 [total, key, [f, v]] and RESP3 {total_results, results:[{id, extra_attributes}]}
		total := verifNondetInt64()
		key, f, v := verifSym(2), verifSym(1), verifSym(1)
		verifAssume(key != "") // an empty second element is the "no content" marker of the RESP2 shape
		r2 := slicemsg(typeArray, []RedisMessage{{typ: typeInteger, intlen: total}, verifBlob(key), slicemsg(typeArray, []RedisMessage{verifBlob(f), verifBlob(v)})})
		r3 := verifKVMap(typeMap,
			verifBlob("total_results"), RedisMessage{typ: typeInteger, intlen: total},
			verifBlob("results"), slicemsg(typeArray, []RedisMessage{verifKVMap(typeMap,
				verifBlob("id"), verifBlob(key),
				verifBlob("extra_attributes"), verifKVMap(typeMap, verifBlob(f), verifBlob(v)))}))
		for _, m := range []RedisMessage{r2, r3} {
			n, docs, err := m.AsFtSearch()
			verifAssert(err == nil && n == total && len(docs) == 1, "AsFtSearch returns the total and one document in both shapes")
			verifAssert(docs[0].Key == key && docs[0].Doc[f] == v, "AsFtSearch returns the document key and its attributes")
		}
		verifReach("ftsearch")
	case 2: // GEOSEARCH: names only, and [name, dist, hash, [lon, lat]]
		name := verifSym(2)
		plain := slicemsg(typeArray, []RedisMessage{verifBlob(name)})
		got, err := plain.AsGeosearch()
		verifAssert(err == nil && len(got) == 1 && got[0].Name == name, "AsGeosearch returns plain names")
		hash := verifNondetInt64()
		full := slicemsg(typeArray, []RedisMessage{slicemsg(typeArray, []RedisMessage{verifBlob(name), verifBlob("2.5"), {typ: typeInteger, intlen: hash},
			slicemsg(typeArray, []RedisMessage{verifBlob("13.25"), verifBlob("-7.5")})})})
		got, err = full.AsGeosearch()
		verifAssert(err == nil && len(got) == 1 && got[0].Name == name && got[0].Dist == 2.5 && got[0].GeoHash == hash && got[0].Longitude == 13.25 && got[0].Latitude == -7.5, "AsGeosearch returns name, distance, hash and coordinates")
		verifReach("geo")
	case 3: // ZMPOP / AsIntMap / floats
		key, mem := verifSym(1), verifSym(1)
		pop := slicemsg(typeArray, []RedisMessage{verifBlob(key), slicemsg(typeArray, []RedisMessage{slicemsg(typeArray, []RedisMessage{verifBlob(mem), strmsg(typeFloat, "4.5")})})})
		kz, err := pop.AsZMPop()
		verifAssert(err == nil && kz.Key == key && len(kz.Values) == 1 && kz.Values[0].Member == mem && kz.Values[0].Score == 4.5, "AsZMPop returns the key and its scored members")
		iv := verifNondetInt64()
		im := verifKVMap(typeMap, verifBlob(key), RedisMessage{typ: typeInteger, intlen: iv})
		gm, err := im.AsIntMap()
		verifAssert(err == nil && gm[key] == iv, "AsIntMap returns integer values per field")
		fm := strmsg(typeFloat, "-0.125")
		fv, err := fm.ToFloat64()
		verifAssert(err == nil && fv == -0.125, "ToFloat64 returns the RESP3 double")
		bm := verifBlob("6.25")
		fv, err = bm.AsFloat64()
		verifAssert(err == nil && fv == 6.25, "AsFloat64 parses the decimal text")
		verifReach("misc")
	default: // ToAny recursion
		s, n := verifSym(1), verifNondetInt64()
		m := slicemsg(typeArray, []RedisMessage{verifBlob(s), {typ: typeInteger, intlen: n}, verifKVMap(typeMap, verifBlob("k"), RedisMessage{typ: typeBool, intlen: 1}), {typ: typeNull}})
		a, err := m.ToAny()
		verifAssert(err == nil, "ToAny converts nested replies")
		l := a.([]any)
		verifAssert(len(l) == 4 && l[0].(string) == s && l[1].(int64) == n && l[2].(map[string]any)["k"].(bool) && l[3] == nil, "ToAny keeps every element, in order, with its Go type")
		verifReach("toany")
	}
}
