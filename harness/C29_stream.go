package rueidis

import (
	"context"
	"strconv"
)

// C29: streaming reads deliver exact bytes and recycle connections.

type verifStreamReply struct {
	wire    string // what the server sends
	payload string // what the writer must receive ("" with isErr/isNil)
	kind    int    // 0 payload, 1 nil, 2 error reply, 3 unsupported (aggregate)
}

func verifStreamReplyGen() verifStreamReply {
	switch verifChoose(7) {
	case 0:
		s := verifNondetString(verifChoose(2) * 3) // arbitrary bytes, also CR/LF
		return verifStreamReply{wire: "$" + strconv.Itoa(len(s)) + "\r\n" + s + "\r\n", payload: s}
	case 1:
		return verifStreamReply{wire: "+OK\r\n", payload: "OK"}
	case 2:
		return verifStreamReply{wire: ":-42\r\n", payload: "-42"}
	case 3:
		return verifStreamReply{wire: ",1.5\r\n", payload: "1.5"}
	case 4:
		return verifStreamReply{wire: "_\r\n", kind: 1}
	case 5:
		return verifStreamReply{wire: "-ERR no\r\n", kind: 2}
	default:
		return verifStreamReply{wire: "*1\r\n:1\r\n", kind: 3}
	}
}

func VerifC29_stream() {
	n := 1 + verifChoose(verifParam("max_cmds", 2))
	replies := make([]verifStreamReply, n)
	for i := range replies {
		replies[i] = verifStreamReplyGen()
	}
	conn := newVerifConn()
	srv := newVerifServer(conn)
	cut := verifChoose(3) == 0 // the connection dies after the first reply's first byte
	verifGo("server", func() {
		verifDaemon()
		for i := 0; i < n; i++ {
			if _, ok := srv.next(); !ok {
				return
			}
			if cut && i == 0 {
				srv.send(replies[0].wire[:1])
				conn.in.close()
				return
			}
			srv.send(replies[i].wire)
		}
	})
	var made *pipe
	pl := newPool(1, deadFn(), 0, 0, func(ctx context.Context) wire {
		made = verifNewPipe(conn, false)
		made.queue = nil // blocking-pool pipes are created without background workers (newPipeNoBg)
		made.nsubs, made.psubs, made.ssubs, made.close, made.cache = nil, nil, nil, nil, nil
		return made
	})
	ctx, cancel := context.WithCancel(context.Background())
	defer cancel()
	ctxMode := verifChoose(3) // 0 live, 1 done before Acquire, 2 ends between Acquire and DoStream
	if ctxMode == 1 {
		cancel()
	}
	// what mux.DoStream / mux.DoMultiStream do
	w := pl.Acquire(ctx)
	if ctxMode == 2 {
		cancel()
	}
	cmdsV := make([]Completed, n)
	for i := range cmdsV {
		cmdsV[i] = verifIDCmd(i)
	}
	var s RedisResultStream
	if n == 1 && verifChoose(2) == 0 {
		s = w.DoStream(ctx, pl, cmdsV[0])
	} else {
		s = w.DoMultiStream(ctx, pl, cmdsV...)
	}
	i := 0
	for s.HasNext() {
		var sink verifSink
		cnt, err := s.WriteTo(&sink)
		verifAssert(i < n, "at most one WriteTo per command consumes a reply")
		if ctxMode == 0 && !cut {
			r := replies[i]
			switch r.kind {
			case 0:
				verifAssert(err == nil && string(sink.b) == r.payload && int(cnt) == len(r.payload), "the writer receives exactly the reply's payload")
				verifReach("payload")
			case 1:
				verifAssert(IsRedisNil(err) && len(sink.b) == 0, "a nil reply is reported as an error")
			case 2:
				_, isRE := IsRedisErr(err)
				verifAssert(isRE && len(sink.b) == 0, "an error reply is reported as an error")
			default:
				verifAssert(err != nil, "aggregate replies cannot be streamed")
			}
		}
		i++
	}
	if ctxMode == 0 && !cut {
		verifAssert(i == n, "one WriteTo per command")
		verifReach("complete")
	}
	if ctxMode != 0 {
		verifAssert(s.Error() != nil && i == 0, "a call whose context is done streams nothing")
		verifAssert(conn.out.total == 0, "and sends nothing")
	}
	verifSettle()
	// the connection came back to the pool, or was closed and given up by it
	pl.cond.L.Lock()
	what := []string{"live context", "context done before Acquire", "context ended between Acquire and DoStream"}[ctxMode]
	if cut {
		what += ", connection cut"
	}
	verifAssert(pl.size == len(pl.list), "every connection handed out by the pool came back (or was closed and dropped) exactly once ("+what+")")
	pl.cond.L.Unlock()
	if cut && made != nil && ctxMode == 0 {
		verifAssert(made.Error() != nil, "a connection whose reply could not be consumed completely is closed before it is returned")
		verifReach("unclean")
	}
}
