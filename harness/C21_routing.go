package rueidis

import (
	"context"

	"github.com/redis/rueidis/internal/cmds"
)

// C21: a command reaches a replica only when SendToReplicas opts it in (for non-cluster
// batches: every command of the batch) or the client is ReplicaOnly; a selector result
// outside the candidate list falls back to the primary.

func verifRoutingCmds(n int) ([]Completed, []bool) {
	b := cmds.NewBuilder(cmds.NoSlot)
	cs := make([]Completed, n)
	optIn := make([]bool, n)
	for i := range cs {
		cs[i] = b.Get().Key(string([]byte{'k', '0' + byte(i)})).Build().Pin()
		optIn[i] = verifNondetBool() // what the caller's SendToReplicas predicate answers for command i
	}
	return cs, optIn
}

func verifPredicate(cs []Completed, optIn []bool) func(Completed) bool {
	return func(c Completed) bool {
		for i := range cs {
			if cs[i].Commands()[1] == c.Commands()[1] {
				return optIn[i]
			}
		}
		return false
	}
}

func VerifC21_standalone() {
	n := 1 + verifChoose(verifParam("max_batch", 3))
	cs, optIn := verifRoutingCmds(n)
	pc := &verifStubConn{addr: "p"}
	r1, r2 := &verifStubConn{addr: "r1"}, &verifStubConn{addr: "r2"}
	mk := func(c conn) *singleClient {
		return newSingleClientWithConn(c, cmds.NewBuilder(cmds.NoSlot), false, false, newRetryer(defaultRetryDelayFn), false)
	}
	s := &standalone{retryer: newRetryer(defaultRetryDelayFn), opt: &ClientOption{}}
	s.primary.Store(mk(pc))
	nrep := 1 + verifChoose(2)
	s.replicas = []*singleClient{mk(r1), mk(r2)}[:nrep]
	s.nodes = []NodeInfo{{Addr: "p"}, {Addr: "r1"}, {Addr: "r2"}}[:1+nrep]
	hasPred := verifChoose(2) == 1
	if hasPred {
		s.toReplicas = verifPredicate(cs, optIn)
	}
	sel := -9
	if verifChoose(2) == 1 {
		sel = verifNondetInt(-2, 4) // any selector answer, also outside the node list
		s.nodeSelector = func(uint16, []NodeInfo) int { return sel }
	}
	switch kind := verifChoose(5); {
	case kind == 0 && n == 1:
		s.Do(context.Background(), cs[0])
	case kind == 1 && n == 1:
		s.DoStream(context.Background(), cs[0])
		verifReach("stream")
	case kind == 2 && n == 1:
		s.Receive(context.Background(), cs[0], func(PubSubMessage) {})
		verifReach("receive")
	case kind == 3:
		s.DoMultiStream(context.Background(), cs...)
		verifReach("multistream")
	default:
		s.DoMulti(context.Background(), cs...)
	}
	all := hasPred
	for i := 0; i < n; i++ {
		all = all && optIn[i]
	}
	onReplica := len(r1.log)+len(r2.log)+len(r1.slog)+len(r2.slog) > 0
	verifAssert(len(pc.log)+len(r1.log)+len(r2.log)+len(pc.slog)+len(r1.slog)+len(r2.slog) == n, "the whole call goes to exactly one node")
	if onReplica {
		verifAssert(all, "a replica is used only when SendToReplicas opts in every command of the call")
		verifReach("replica")
	} else {
		verifReach("primary")
	}
	if s.nodeSelector != nil && all && (sel <= 0 || sel >= 1+nrep) {
		verifAssert(!onReplica, "a selector result outside the candidate list (or 0) means the primary")
		verifReach("fallback")
	}
	if !all {
		verifAssert(len(pc.log)+len(pc.slog) == n, "everything else goes to the primary")
	}
}

func VerifC21_sentinel() {
	n := 1 + verifChoose(verifParam("max_batch", 3))
	cs, optIn := verifRoutingCmds(n)
	mc, rc := &verifStubConn{addr: "m"}, &verifStubConn{addr: "r"}
	c := &sentinelClient{cmd: cmds.NewBuilder(cmds.NoSlot), retryHandler: newRetryer(defaultRetryDelayFn), mOpt: &ClientOption{}}
	c.mConn.Store(conn(mc))
	c.rConn.Store(conn(rc))
	c.replica = verifChoose(3) == 0 // ReplicaOnly
	hasPred := verifChoose(2) == 1
	if hasPred {
		c.mOpt.SendToReplicas = verifPredicate(cs, optIn)
	}
	kind := verifChoose(6)
	switch {
	case kind == 0 && n == 1:
		c.Do(context.Background(), cs[0])
	case kind == 1:
		c.DoMulti(context.Background(), cs...)
	case kind == 3 && n == 1:
		c.DoStream(context.Background(), cs[0])
		verifReach("stream")
	case kind == 4 && n == 1:
		c.Receive(context.Background(), cs[0], func(PubSubMessage) {})
		verifReach("receive")
	case kind == 5:
		c.DoMultiStream(context.Background(), cs...)
		verifReach("multistream")
	default:
		cts := make([]CacheableTTL, n)
		for i := range cts {
			cts[i] = CT(Cacheable(cs[i]), 0)
		}
		c.DoMultiCache(context.Background(), cts...)
	}
	all := hasPred
	for i := 0; i < n; i++ {
		all = all && optIn[i]
	}
	verifAssert(len(mc.log)+len(rc.log)+len(mc.slog)+len(rc.slog) == n, "the whole call goes to exactly one node")
	if len(rc.log)+len(rc.slog) > 0 {
		verifAssert(c.replica || all, "a replica is used only for ReplicaOnly clients or when SendToReplicas opts in every command")
		verifReach("replica")
	} else {
		verifAssert(!c.replica, "a ReplicaOnly client never talks to the master")
		verifReach("master")
	}
}

func VerifC21_cluster() {
	cs, optIn := verifRoutingCmds(1)
	b := cmds.NewBuilder(cmds.InitSlot)
	cmd := b.Get().Key("k0").Build().Pin()
	cs[0] = cmd
	pc, r1 := &verifStubConn{addr: "p"}, &verifStubConn{addr: "r1"}
	opt := &ClientOption{}
	hasPred := verifChoose(2) == 1
	if hasPred {
		opt.SendToReplicas = verifPredicate(cs, optIn)
	}
	sel := 0
	if verifChoose(2) == 1 {
		sel = verifNondetInt(-2, 3)
		opt.ReadNodeSelector = func(uint16, []NodeInfo) int { return sel }
	}
	c := &clusterClient{cmd: b, opt: opt, conns: map[string]connrole{"p": {conn: pc}, "r1": {conn: r1}},
		retryHandler: newRetryer(defaultRetryDelayFn), stopCh: make(chan struct{})}
	slot := cmd.Slot()
	c.wslots[slot] = pc
	hasTable := verifChoose(2) == 1
	if hasTable {
		c.rslots = make([][]NodeInfo, 16384)
		c.rslots[slot] = nodes{{Addr: "p", conn: pc}, {Addr: "r1", conn: r1}}
	}
	c.Do(context.Background(), cmd)
	verifAssert(len(pc.log)+len(r1.log) == 1, "the command goes to exactly one node")
	if len(r1.log) > 0 {
		verifAssert(hasPred && optIn[0] && hasTable, "a replica is used only when SendToReplicas opts the command in")
		verifAssert(opt.ReadNodeSelector != nil && sel == 1, "the replica is the one the selector named")
		verifReach("replica")
	} else {
		verifReach("primary")
	}
	if opt.ReadNodeSelector != nil && (sel < 0 || sel >= 2) {
		verifAssert(len(pc.log) == 1, "a selector result outside the candidate list falls back to the primary")
		verifReach("fallback")
	}
}

// VerifC21_clusterMulti: placement of cluster batches (DoMulti: _pickMulti; DoMultiCache:
// _pickMultiCache). Two slots with their own primary and replica; each command's predicate answer
// is symbolic; the replica table has either form _refresh builds (all nodes with a
// ReadNodeSelector, or the single pre-selected node).
func VerifC21_clusterMulti() {
	n := 2 + verifChoose(int(verifParam("max_batch", 3))-1)
	b := cmds.NewBuilder(cmds.InitSlot)
	cs := make([]Completed, n)
	optIn := make([]bool, n)
	for i := range cs {
		tag := "{s}"
		if verifChoose(2) == 1 {
			tag = "{t}"
		}
		cs[i] = b.Get().Key(tag + string([]byte{'k', '0' + byte(i)})).Build().Pin()
		optIn[i] = verifNondetBool()
	}
	ps, rs1 := &verifStubConn{addr: "ps"}, &verifStubConn{addr: "rs"}
	pt, rt1 := &verifStubConn{addr: "pt"}, &verifStubConn{addr: "rt"}
	opt := &ClientOption{}
	hasPred := verifChoose(2) == 1
	if hasPred {
		opt.SendToReplicas = verifPredicate(cs, optIn)
	}
	sel := 0
	withSelector := verifChoose(2) == 1
	if withSelector {
		sel = verifNondetInt(-2, 3)
		opt.ReadNodeSelector = func(uint16, []NodeInfo) int { return sel }
	}
	c := &clusterClient{cmd: b, opt: opt, conns: map[string]connrole{"ps": {conn: ps}, "rs": {conn: rs1}, "pt": {conn: pt}, "rt": {conn: rt1}},
		retryHandler: newRetryer(defaultRetryDelayFn), stopCh: make(chan struct{})}
	ks, kt := b.Get().Key("{s}").Build(), b.Get().Key("{t}").Build()
	slotS, slotT := ks.Slot(), kt.Slot()
	c.wslots[slotS], c.wslots[slotT] = ps, pt
	hasTable := verifChoose(2) == 1
	if hasTable {
		c.rslots = make([][]NodeInfo, 16384)
		if withSelector {
			c.rslots[slotS] = nodes{{Addr: "ps", conn: ps}, {Addr: "rs", conn: rs1}}
			c.rslots[slotT] = nodes{{Addr: "pt", conn: pt}, {Addr: "rt", conn: rt1}}
		} else {
			c.rslots[slotS] = nodes{{Addr: "rs", conn: rs1}}
			c.rslots[slotT] = nodes{{Addr: "rt", conn: rt1}}
		}
	}
	// expected node of command i
	want := func(i int) conn {
		prim, repl := conn(ps), conn(rs1)
		if cs[i].Slot() == slotT {
			prim, repl = pt, rt1
		}
		if !hasPred || !hasTable || !optIn[i] {
			return prim
		}
		if withSelector {
			if sel == 1 {
				return repl
			}
			return prim // index 0 is the primary; an answer outside the list falls back to it
		}
		return repl
	}
	placed := make([]int, n)
	if verifChoose(2) == 0 {
		retries, _ := c._pickMulti(cs)
		verifAssert(retries != nil, "the batch is placed")
		for cc, re := range retries.m {
			verifAssert(len(re.commands) == len(re.cIndexes), "positions are recorded for every placed command")
			for j, ci := range re.cIndexes {
				placed[ci]++
				verifAssert(re.commands[j].Commands()[1] == cs[ci].Commands()[1], "the recorded position belongs to the command")
				verifAssert(cc == want(ci), "a batch command goes to a replica only when SendToReplicas opts that command in, otherwise to its slot's primary")
			}
		}
		verifReach("multi")
	} else {
		multi := make([]CacheableTTL, n)
		for i := range cs {
			multi[i] = CT(Cacheable(cs[i]), 0)
		}
		retries := c._pickMultiCache(multi)
		verifAssert(retries != nil, "the batch is placed")
		for cc, re := range retries.m {
			verifAssert(len(re.commands) == len(re.cIndexes), "positions are recorded for every placed command")
			for j, ci := range re.cIndexes {
				placed[ci]++
				verifAssert(re.commands[j].Cmd.Commands()[1] == cs[ci].Commands()[1], "the recorded position belongs to the command")
				verifAssert(cc == want(ci), "a cached batch command goes to a replica only when SendToReplicas opts that command in, otherwise to its slot's primary")
			}
		}
		verifReach("multicache")
	}
	for i := range placed {
		verifAssert(placed[i] == 1, "every command of the batch is placed exactly once")
	}
}
