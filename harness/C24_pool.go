package rueidis

import (
	"context"
)

// C24 / C05: the blocking pool bounds, isolates and releases connections; waiters whose
// context is done return.

// VerifC24_step: one pool operation from an arbitrary state satisfying the accounting
// invariant size == len(list) + out (out = wires handed out or being made), 0 <= size <= cap.
func VerifC24_step() {
	capN := 1 + verifChoose(verifParam("max_cap", 3))
	nlist := verifChoose(capN + 1)
	out := verifChoose(capN - nlist + 1)
	made := 0
	var fresh []*verifWire
	dead := deadFn()
	dialFailed := false
	p := newPool(capN, dead, 0, 0, func(ctx context.Context) wire {
		made++
		if made == 1 && verifNondetBool() {
			dialFailed = true // makeMux hands the pool its dead wire when dialling fails
			return dead
		}
		w := &verifWire{id: 100 + made}
		if made == 1 && verifNondetBool() {
			w.stopTimer = func() bool { return false } // e.g. the connection lifetime expired while dialing (bounded: once)
		}
		fresh = append(fresh, w)
		return w
	})
	listed := make([]*verifWire, nlist)
	for i := range listed {
		w := &verifWire{id: i}
		if verifNondetBool() {
			w.err = verifErrPage // a broken idle connection
		}
		if verifNondetBool() {
			w.stopTimer = func() bool { return false }
		}
		listed[i] = w
		p.list = append(p.list, w)
	}
	p.size = nlist + out
	inList := func(w wire) bool {
		for _, x := range p.list {
			if x == w {
				return true
			}
		}
		return false
	}
	check := func(when string) {
		verifAssert(p.size == len(p.list)+out, "size == idle + handed out ("+when+")")
		verifAssert(p.size >= 0 && p.size <= capN, "0 <= size <= BlockingPoolSize ("+when+")")
		for i, a := range p.list {
			for j, b := range p.list {
				verifAssert(i == j || a != b, "no connection is listed twice ("+when+")")
			}
		}
	}
	switch verifChoose(5) {
	case 0: // Acquire that cannot block: something idle, room to dial, or only broken idle wires
		if nlist == 0 && p.size == capN {
			verifAssume(false)
		}
		// if every idle wire is unusable and the pool is otherwise full, Acquire would wait for a
		// Store; that schedule belongs to VerifC24_sched
		v := p.Acquire(context.Background())
		if vw, ok := v.(*verifWire); ok {
			out++
			verifAssert(!inList(v), "a handed-out connection is not listed as idle any more")
			verifAssert(vw.err == nil && vw.closed == 0, "an acquired connection is healthy and open")
			verifReach("acquired")
		} else {
			verifAssert(dialFailed && v == wire(dead), "Acquire with a live context on an open pool returns a dead connection only when dialling failed")
			out++ // the failed dial occupies a slot until the caller hands the wire back
			verifReach("dialfailed")
		}
		for _, w := range listed {
			if !inList(w) && w != v {
				verifAssert(w.closed > 0, "a connection dropped from the pool is closed")
			}
		}
		for _, w := range fresh {
			if wire(w) != v {
				verifAssert(w.closed > 0, "a freshly made connection that is not handed out is closed")
			}
		}
		check("after Acquire")
		// every caller hands what it acquired back to the pool
		if vw, ok := v.(*verifWire); ok && verifNondetBool() {
			vw.err = verifErrPage // it broke while in use
		}
		p.Store(v)
		out--
		check("after storing the acquired connection back")
	case 1: // Acquire with a done context, then the caller stores what it got (mux.blocking, DoStream, release)
		ctx, cancel := context.WithCancel(context.Background())
		cancel()
		v := p.Acquire(ctx)
		verifAssert(v.Error() != nil, "Acquire with a done context returns a connection that reports the context error")
		verifAssert(made == 0, "Acquire with a done context dials nothing")
		check("after cancelled Acquire")
		p.Store(v)
		check("after storing the connection a cancelled Acquire returned")
		verifReach("cancelled")
	case 2: // Store of a counted connection
		if out == 0 {
			verifAssume(false)
		}
		w := &verifWire{id: 50}
		if verifNondetBool() {
			w.err = verifErrPage
		}
		p.Store(w)
		out--
		if w.err != nil {
			verifAssert(w.closed > 0 && !inList(w), "a broken connection is closed, not pooled")
		} else {
			verifAssert(inList(w) && w.closed == 0, "a healthy connection goes back to the idle list")
		}
		check("after Store")
		verifReach("stored")
	case 3:
		p.minSize = verifChoose(nlist + 1)
		p.removeIdleConns()
		for _, w := range listed {
			verifAssert(inList(w) || w.closed > 0, "an idle connection removed by the cleaner is closed")
		}
		check("after idle cleanup")
		verifReach("cleaned")
	default:
		p.Close()
		for _, w := range listed {
			verifAssert(w.closed > 0, "Close closes every idle connection")
		}
		v := p.Acquire(context.Background())
		verifAssert(v.Error() != nil, "after Close the pool hands out only closed connections")
		verifReach("closed")
	}
}

// VerifC05_poolCancel: a waiter on an exhausted pool whose context is cancelled returns (no
// lost wake-up), for every schedule of waiter, canceller and the pool's own broadcast goroutine.
func VerifC05_poolCancel() {
	p := newPool(1, deadFn(), 0, 0, func(ctx context.Context) wire { return &verifWire{id: 1} })
	held := p.Acquire(context.Background()) // the only connection is out and never comes back
	_ = held
	ctx, cancel := context.WithCancel(context.Background())
	returned := false
	verifGo("waiter", func() {
		v := p.Acquire(ctx)
		verifAssert(v.Error() != nil, "a cancelled waiter gets a connection reporting the context error")
		returned = true
		p.Store(v)
	})
	verifGo("canceller", func() {
		cancel()
	})
	verifJoin()
	verifAssert(returned, "the cancelled waiter returned")
	verifAssert(p.size == 1, "pool accounting unchanged by the cancelled waiter")
	verifReach("returned")
}

// VerifC24_sched: acquirers and returners on a small pool: never two holders of one
// connection, never more than cap live connections, every acquirer eventually served.
func VerifC24_sched() {
	capN := verifParam("cap", 1)
	made := 0
	p := newPool(capN, deadFn(), 0, 0, func(ctx context.Context) wire {
		made++
		return &verifWire{id: made}
	})
	holders := map[wire]int{}
	live := 0
	n := verifParam("acquirers", 2)
	for i := 0; i < n; i++ {
		i := i
		verifGo("user", func() {
			v := p.Acquire(context.Background())
			holders[v]++
			verifAssert(holders[v] == 1, "a connection is never handed to two holders at the same time")
			live = len(holders)
			verifAssert(live <= capN, "never more than BlockingPoolSize connections in use")
			verifYield()
			delete(holders, v)
			if i == 0 && verifChoose(2) == 1 {
				v.(*verifWire).err = verifErrPage // the holder broke its connection
			}
			p.Store(v)
		})
	}
	verifJoin()
	verifAssert(made <= n, "no more connections dialled than acquisitions")
	verifAssert(p.size == len(p.list), "everything handed out came back or was closed")
	verifReach("served")
}

// VerifC05_poolRetry: the waiter enters Acquire while the pool still has room, its freshly
// dialled connection turns out unusable (StopTimer false) and by the time it retries another
// user holds the only slot: it now has to wait — and must still honour its context.
func VerifC05_poolRetry() {
	made := 0
	p := newPool(1, deadFn(), 0, 0, func(ctx context.Context) wire {
		made++
		w := &verifWire{id: made}
		if made == 1 {
			w.stopTimer = func() bool { return false }
			verifYield() // dialling takes time: others run
		}
		return w
	})
	ctx, cancel := context.WithCancel(context.Background())
	returned := false
	verifGo("waiter", func() {
		v := p.Acquire(ctx)
		returned = true
		if v.Error() == nil {
			verifReach("gotwire")
		} else {
			verifReach("cancelled")
		}
	})
	verifGo("holder", func() {
		verifDaemon() // may legitimately wait forever when the waiter won the slot
		v := p.Acquire(context.Background()) // never stored back
		_ = v
	})
	verifGo("canceller", func() {
		cancel()
	})
	verifJoin()
	verifAssert(returned, "the waiter returned")
}

// VerifC05_poolTwoWaiters: two waiters on an exhausted pool, the holder returns its wire, one
// waiter's context is cancelled at any point: that waiter must return (with the wire or with
// the context error) on every schedule; the other one may keep the wire forever.
func VerifC05_poolTwoWaiters() {
	made := 0
	p := newPool(1, deadFn(), 0, 0, func(ctx context.Context) wire {
		made++
		return &verifWire{id: made}
	})
	held := p.Acquire(context.Background())
	ctx, cancel := context.WithCancel(context.Background())
	returned := false
	verifGo("patient", func() {
		verifDaemon() // background context: may wait forever if the other waiter won the wire
		v := p.Acquire(context.Background())
		_ = v // keeps it
	})
	verifGo("impatient", func() {
		v := p.Acquire(ctx)
		returned = true
		if v.Error() == nil {
			verifReach("gotwire")
		} else {
			verifReach("cancelled")
		}
	})
	verifGo("holder", func() { p.Store(held) })
	verifGo("canceller", func() { cancel() })
	verifJoin()
	verifAssert(returned, "the waiter whose context ended returned")
	verifAssert(made == 1, "no connection beyond BlockingPoolSize is dialled")
}
