package rueidis

import (
	"context"
	"time"
)

// C09 / C06 (store side): every sequence of ≤ N store operations over 2 keys × 2 commands,
// checked against a ghost model of the single-flight protocol and of invalidation.

type verifGhost struct {
	state   int // 0 absent, 1 pending, 2 completed
	val     string
	waiters []CacheEntry
}

func verifStoreHistory(st CacheStore) {
	steps := verifParam("steps", 3)
	keys := []string{"a", "b"}[:verifParam("nkeys", 2)]
	cmdsN := []string{"GET", "HGETf"}
	g := map[string]*verifGhost{}
	for _, k := range keys {
		for _, c := range cmdsN {
			g[k+"|"+c] = &verifGhost{}
		}
	}
	now := time.Now()
	closed := false
	stamp := 0
	bg := context.Background()
	for s := 0; s < steps; s++ {
		k := keys[verifChoose(len(keys))]
		c := cmdsN[verifChoose(2)]
		gh := g[k+"|"+c]
		switch verifChoose(5) {
		case 0: // Flight
			v, e := st.Flight(k, c, time.Minute, now)
			if closed {
				verifAssert(v.typ == 0, "a closed store never answers with a hit")
				break
			}
			switch gh.state {
			case 0:
				verifAssert(v.typ == 0 && e == nil, "a miss with nothing in flight tells exactly this caller to send")
				gh.state = 1
				verifReach("send")
			case 1:
				verifAssert(v.typ == 0 && e != nil, "while a request is in flight other readers wait on it and send nothing")
				gh.waiters = append(gh.waiters, e)
				verifReach("wait")
			default:
				verifAssert(v.typ != 0 && v.string() == gh.val, "a hit returns the reply stored for exactly that command")
				verifReach("hit")
			}
		case 1: // Update (the reply to the in-flight request arrives)
			stamp++
			val := "v" + string([]byte{'0' + byte(stamp)})
			st.Update(k, c, strmsg(typeSimpleString, val))
			if gh.state == 1 && !closed {
				gh.state, gh.val = 2, val
				for _, w := range gh.waiters {
					m, err := w.Wait(bg)
					verifAssert(err == nil && m.string() == val, "every waiter receives the owner's reply")
				}
				gh.waiters = nil
				verifReach("completed")
			}
		case 2: // Cancel (the request failed)
			st.Cancel(k, c, verifErrPage)
			if gh.state == 1 && !closed {
				gh.state = 0
				for _, w := range gh.waiters {
					_, err := w.Wait(bg)
					verifAssert(err == verifErrPage, "a failed request wakes every waiter with the error")
				}
				gh.waiters = nil
				verifReach("cancelled")
			}
		case 3: // invalidation
			if verifChoose(2) == 0 {
				st.Delete([]RedisMessage{strmsg(typeBlobString, k)})
				for _, cc := range cmdsN {
					if x := g[k+"|"+cc]; x.state == 2 {
						x.state = 0
					}
				}
			} else {
				st.Delete(nil)
				for _, x := range g {
					if x.state == 2 {
						x.state = 0
					}
				}
			}
			verifReach("invalidated")
		default: // connection lost
			if !closed {
				st.Close(ErrDoCacheAborted)
				closed = true
				for _, x := range g {
					for _, w := range x.waiters {
						_, err := w.Wait(bg)
						verifAssert(err == ErrDoCacheAborted, "disconnect wakes every waiter with the error")
					}
					x.waiters = nil
					x.state = 0
				}
				verifReach("closed")
			}
		}
	}
}

func VerifC09_lru() {
	verifStoreHistory(newLRU(CacheStoreOption{CacheSizeEachConn: 1 << 20}))
}

func VerifC09_adapter() {
	verifStoreHistory(NewSimpleCacheAdapter(&verifSimpleCache{m: map[string]RedisMessage{}}))
}
