package rueidis

import (
	"context"
	"time"
)

// C09 / C06 (store side): every sequence of ≤ N store operations over 2 keys × 2 commands,
// checked against a ghost model of the single-flight protocol and of invalidation.

type verifGhost struct {
	state   int // 0 absent, 1 pending, 2 completed
	val     string
	waiters []CacheEntry
}

func verifStoreHistory(st CacheStore) {
	steps := verifParam("steps", 3)
	keys := []string{"a", "b"}[:verifParam("nkeys", 2)]
	cmdsN := []string{"GET", "HGETf"}
	g := map[string]*verifGhost{}
	for _, k := range keys {
		for _, c := range cmdsN {
			g[k+"|"+c] = &verifGhost{}
		}
	}
	now := time.Now()
	closed := false
	stamp := 0
	bg := context.Background()
	for s := 0; s < steps; s++ {
		k := keys[verifChoose(len(keys))]
		c := cmdsN[verifChoose(2)]
		gh := g[k+"|"+c]
		switch verifChoose(5) {
		case 0: // Flight
			at := now
			if gh.state == 1 && verifChoose(2) == 1 {
				// the reply to the request in flight is slower than the client-side TTL it was issued
				// with: a reader arriving after that deadline still joins the flight
				at = now.Add(2 * time.Minute)
				verifReach("late")
			}
			v, e := st.Flight(k, c, time.Minute, at)
			if closed {
				verifAssert(v.typ == 0, "a closed store never answers with a hit")
				break
			}
			switch gh.state {
			case 0:
				verifAssert(v.typ == 0 && e == nil, "a miss with nothing in flight tells exactly this caller to send")
				gh.state = 1
				verifReach("send")
			case 1:
				verifAssert(v.typ == 0 && e != nil, "while a request is in flight other readers wait on it and send nothing")
				gh.waiters = append(gh.waiters, e)
				verifReach("wait")
			default:
				verifAssert(v.typ != 0 && v.string() == gh.val, "a hit returns the reply stored for exactly that command")
				verifReach("hit")
			}
		case 1: // Update (the reply to the in-flight request arrives)
			stamp++
			val := "v" + string([]byte{'0' + byte(stamp)})
			st.Update(k, c, strmsg(typeSimpleString, val))
			if gh.state == 1 && !closed {
				gh.state, gh.val = 2, val
				for _, w := range gh.waiters {
					m, err := w.Wait(bg)
					verifAssert(err == nil && m.string() == val, "every waiter receives the owner's reply")
				}
				gh.waiters = nil
				verifReach("completed")
			}
		case 2: // Cancel (the request failed)
			st.Cancel(k, c, verifErrPage)
			if gh.state == 1 && !closed {
				gh.state = 0
				for _, w := range gh.waiters {
					_, err := w.Wait(bg)
					verifAssert(err == verifErrPage, "a failed request wakes every waiter with the error")
				}
				gh.waiters = nil
				verifReach("cancelled")
			}
		case 3: // invalidation
			if verifChoose(2) == 0 {
				st.Delete([]RedisMessage{strmsg(typeBlobString, k)})
				for _, cc := range cmdsN {
					if x := g[k+"|"+cc]; x.state == 2 {
						x.state = 0
					}
				}
			} else {
				st.Delete(nil)
				for _, x := range g {
					if x.state == 2 {
						x.state = 0
					}
				}
			}
			verifReach("invalidated")
		default: // connection lost
			if !closed {
				st.Close(ErrDoCacheAborted)
				closed = true
				for _, x := range g {
					for _, w := range x.waiters {
						_, err := w.Wait(bg)
						verifAssert(err == ErrDoCacheAborted, "disconnect wakes every waiter with the error")
					}
					x.waiters = nil
					x.state = 0
				}
				verifReach("closed")
			}
		}
	}
}

func VerifC09_lru() {
	verifStoreHistory(newLRU(CacheStoreOption{CacheSizeEachConn: 1 << 20}))
}

func VerifC09_adapter() {
	verifStoreHistory(NewSimpleCacheAdapter(&verifSimpleCache{m: map[string]RedisMessage{}}))
}

// VerifC09_step (rely/guarantee step): the store is put into an arbitrary state — each of
// three identities (two commands under key a, one under key b) is absent, pending, pending
// with a waiter, or completed, inserted in either order — then ONE operation runs and the
// complete observable state is checked against the ghost model.
func verifStoreStep(st CacheStore) {
	type ident struct{ k, c string }
	ids := []ident{{"a", "GET"}, {"a", "HGETf"}, {"b", "GET"}}
	now := time.Now()
	bg := context.Background()
	state := make([]int, len(ids)) // 0 absent, 1 pending, 2 pending+waiter, 3 completed
	waiter := make([]CacheEntry, len(ids))
	val := make([]string, len(ids))
	for i := range ids {
		state[i] = verifChoose(4)
	}
	order := []int{0, 1, 2}
	if verifChoose(2) == 1 {
		order = []int{2, 1, 0}
	}
	for _, i := range order {
		if state[i] == 0 {
			continue
		}
		st.Flight(ids[i].k, ids[i].c, time.Minute, now)
		switch state[i] {
		case 2:
			_, waiter[i] = st.Flight(ids[i].k, ids[i].c, time.Minute, now)
			verifAssert(waiter[i] != nil, "second reader joins the flight")
		case 3:
			val[i] = "v" + string([]byte{'0' + byte(i)})
			st.Update(ids[i].k, ids[i].c, strmsg(typeSimpleString, val[i]))
		}
	}
	// the operation
	closed := false
	woken := make([]error, len(ids)) // expected wake-up error for waiters (nil: value)
	wake := make([]bool, len(ids))
	t := verifChoose(len(ids))
	switch verifChoose(6) {
	case 0: // reply arrives for identity t
		st.Update(ids[t].k, ids[t].c, strmsg(typeSimpleString, "new"))
		if state[t] == 1 || state[t] == 2 {
			wake[t] = state[t] == 2
			state[t], val[t] = 3, "new"
		}
		verifReach("update")
	case 1: // request for identity t failed
		st.Cancel(ids[t].k, ids[t].c, verifErrPage)
		if state[t] == 1 || state[t] == 2 {
			wake[t], woken[t] = state[t] == 2, verifErrPage
			state[t] = 0
		}
		verifReach("cancel")
	case 2: // invalidation of t's key
		st.Delete([]RedisMessage{strmsg(typeBlobString, ids[t].k)})
		for i := range ids {
			if ids[i].k == ids[t].k && state[i] == 3 {
				state[i] = 0
			}
		}
		verifReach("invalidate")
	case 3: // flush
		st.Delete(nil)
		for i := range ids {
			if state[i] == 3 {
				state[i] = 0
			}
		}
		verifReach("flush")
	case 4: // connection lost
		st.Close(ErrDoCacheAborted)
		closed = true
		for i := range ids {
			if state[i] == 2 {
				wake[i], woken[i] = true, ErrDoCacheAborted
			}
			state[i] = 0
		}
		verifReach("close")
	default: // another read of identity t
		v, e := st.Flight(ids[t].k, ids[t].c, time.Minute, now)
		switch state[t] {
		case 0:
			verifAssert(v.typ == 0 && e == nil, "a miss with nothing in flight tells exactly this caller to send")
			state[t] = 1
		case 1, 2:
			verifAssert(v.typ == 0 && e != nil, "while a request is in flight other readers wait on it and send nothing")
		default:
			verifAssert(v.typ != 0 && v.string() == val[t], "a hit returns the reply stored for exactly that command")
		}
		verifReach("flight")
	}
	// waiters woken by the operation
	for i := range ids {
		if wake[i] {
			m, err := waiter[i].Wait(bg) // a wait that blocks here is reported as HANG
			if woken[i] != nil {
				verifAssert(err == woken[i], "waiters are woken with the request's error")
			} else {
				verifAssert(err == nil && m.string() == val[i], "waiters receive the owner's reply")
			}
			waiter[i] = nil
			verifReach("woken")
		}
	}
	// the complete observable state afterwards
	for i := range ids {
		v, e := st.Flight(ids[i].k, ids[i].c, time.Minute, now)
		if closed {
			verifAssert(v.typ == 0, "a closed store never answers with a hit")
			continue
		}
		switch state[i] {
		case 0:
			verifAssert(v.typ == 0 && e == nil, "afterwards: absent identities miss and send")
		case 1, 2:
			verifAssert(v.typ == 0 && e != nil, "afterwards: pending identities are still in flight")
		default:
			verifAssert(v.typ != 0 && v.string() == val[i], "afterwards: completed identities hit with their own reply")
		}
	}
	// pending entries that were left alone can still be completed and wake their waiters
	for i := range ids {
		if !closed && state[i] == 2 && waiter[i] != nil {
			st.Update(ids[i].k, ids[i].c, strmsg(typeSimpleString, "late"))
			m, err := waiter[i].Wait(bg)
			verifAssert(err == nil && m.string() == "late", "a flight untouched by the operation still completes its waiters")
		}
	}
}

func VerifC09_stepLRU() {
	verifStoreStep(newLRU(CacheStoreOption{CacheSizeEachConn: 1 << 20}))
}

func VerifC09_stepAdapter() {
	verifStoreStep(NewSimpleCacheAdapter(&verifSimpleCache{m: map[string]RedisMessage{}}))
}
