package rueidis

import (
	"context"
	"io"
	"strconv"
)

// C01: auto-pipelined calls always receive their own replies, in order.
// C04: broken connections and Close never leave calls hanging.

const verifPushFrame = ">3\r\n$7\r\nmessage\r\n$2\r\nch\r\n$1\r\nx\r\n"

// verifTaggedServer answers every command with a reply carrying the command's own id, so that
// replies are not interchangeable; optionally a Pub/Sub push frame precedes a reply.
func verifTaggedServer(srv *verifServer, pushes bool) {
	verifDaemon()
	for {
		argv, ok := srv.next()
		if !ok {
			return
		}
		if pushes && verifChoose(2) == 1 {
			srv.send(verifPushFrame)
		}
		switch argv[0] {
		case "ID":
			srv.send(":" + argv[1] + "\r\n")
		case "PING":
			srv.send("+PONG\r\n")
		default:
			srv.send("+OK\r\n")
		}
	}
}

func verifCheckID(r RedisResult, id int, ctx context.Context, what string) {
	if err := r.NonRedisError(); err != nil {
		verifAssert(ctx.Err() != nil && err == ctx.Err(), what+": an error is returned only to the caller whose context ended")
		verifReach("aborted")
		return
	}
	n, err := r.AsInt64()
	verifAssert(err == nil && int(n) == id, what+": the reply is the one to the caller's own command")
}

func VerifC01_pipe() {
	conn := newVerifConn()
	srv := newVerifServer(conn)
	p := verifNewPipe(conn, verifParam("flow", 0) == 1)
	if verifChoose(2) == 1 {
		p.background()
	}
	verifGo("server", func() { verifTaggedServer(srv, verifParam("pushes", 1) == 1) })
	callers := verifParam("callers", 2)
	ctxC, cancel := context.WithCancel(context.Background())
	for i := 0; i < callers; i++ {
		i := i
		verifGo("caller"+strconv.Itoa(i), func() {
			ctx := context.Background()
			if i == 0 && verifParam("cancel", 1) == 1 {
				ctx = ctxC
			}
			base := 10 * (i + 1)
			if verifChoose(2) == 0 {
				verifCheckID(p.Do(ctx, verifIDCmd(base)), base, ctx, "Do")
			} else {
				rs := p.DoMulti(ctx, verifIDCmd(base+1), verifIDCmd(base+2))
				verifAssert(len(rs.s) == 2, "one result per command")
				verifCheckID(rs.s[0], base+1, ctx, "DoMulti[0]")
				verifCheckID(rs.s[1], base+2, ctx, "DoMulti[1]")
			}
			// a second, sequential call on the same connection
			verifCheckID(p.Do(ctx, verifIDCmd(base+5)), base+5, ctx, "second Do")
			verifReach("served")
		})
	}
	if verifParam("cancel", 1) == 1 {
		verifGo("canceller", func() { cancel() })
	}
	verifJoin()
	// the server executed every command it fully read exactly once, in per-caller order
	seen := map[string]int{}
	for _, argv := range srv.log {
		if argv[0] == "ID" {
			seen[argv[1]]++
			verifAssert(seen[argv[1]] == 1, "no command is written twice")
		}
	}
}

// VerifC04_pipeFault: the connection fails at the k-th I/O operation (or Close is called
// concurrently): every pending call returns, with its own reply or with a non-nil error.
func VerifC04_pipeFault() {
	conn := newVerifConn()
	srv := newVerifServer(conn)
	p := verifNewPipe(conn, verifParam("flow", 0) == 1)
	hooks := 0
	p.SetOnCloseHook(func(error) { hooks++ })
	if verifChoose(2) == 1 {
		p.background()
	}
	mode := verifChoose(3)
	switch mode {
	case 0:
		conn.failAt = 1 + verifChoose(verifParam("max_fault_op", 6))
		conn.failErr = []error{io.EOF, io.ErrUnexpectedEOF, io.ErrClosedPipe}[verifChoose(3)]
	case 1:
		// the server closes the connection after reading k commands
	}
	verifGo("server", func() {
		verifDaemon()
		served := 0
		for {
			argv, ok := srv.next()
			if !ok {
				return
			}
			if mode == 1 && served >= verifParam("serve_before_close", 1) {
				conn.in.close() // peer goes away: client reads EOF
				return
			}
			served++
			if argv[0] == "ID" {
				srv.send(":" + argv[1] + "\r\n")
			} else {
				srv.send("+PONG\r\n")
			}
		}
	})
	callers := verifParam("callers", 2)
	for i := 0; i < callers; i++ {
		i := i
		verifGo("caller"+strconv.Itoa(i), func() {
			base := 10 * (i + 1)
			for k := 0; k < 2; k++ {
				r := p.Do(context.Background(), verifIDCmd(base+k))
				if err := r.NonRedisError(); err != nil {
					verifReach("failed")
				} else {
					n, e := r.AsInt64()
					verifAssert(e == nil && int(n) == base+k, "a call that does not fail gets its own reply")
					verifReach("served")
				}
			}
		})
	}
	if mode == 2 {
		verifGo("closer", func() {
			p.Close()
			r := p.Do(context.Background(), verifIDCmd(99))
			verifAssert(r.NonRedisError() != nil, "calls after Close fail")
			verifReach("closed")
		})
	}
	verifJoin()
	_ = hooks
}
