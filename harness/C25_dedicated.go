package rueidis

import (
	"context"

	"github.com/redis/rueidis/internal/cmds"
)

// C25: dedicated clients are isolated and single-use. Real singleClient + real mux + real pool
// over stub wires that log what they receive.

func VerifC25_dedicated() {
	var wires []*verifWire
	hooks := PubSubHooks{}
	mkWire := func(ctx context.Context) wire {
		w := &verifWire{id: len(wires) + 1}
		w.doFn = func(cmd Completed) RedisResult {
			w.log = append(w.log, cmd.Commands()[0])
			return NewResult(strmsg(typeSimpleString, "OK"), nil)
		}
		w.doMultiFn = func(multi []Completed) []RedisResult {
			rs := make([]RedisResult, len(multi))
			for i, c := range multi {
				w.log = append(w.log, c.Commands()[0])
				rs[i] = NewResult(strmsg(typeSimpleString, "OK"), nil)
			}
			return rs
		}
		wires = append(wires, w)
		return w
	}
	opt := &ClientOption{BlockingPoolSize: 2}
	m := newMux("dst", opt, (*verifWire)(nil), &verifWire{id: -1, err: ErrClosing}, mkWire, mkWire) // one concrete wire type, as atomic.Value demands
	client := newSingleClientWithConn(m, cmds.NewBuilder(cmds.NoSlot), false, false, newRetryer(defaultRetryDelayFn), false)

	var d DedicatedClient
	var release func()
	viaFn := verifChoose(2) == 1
	installInval := verifChoose(2) == 1
	session := func(dc DedicatedClient) error {
		d = dc
		verifAssert(dc.Do(context.Background(), dc.B().Watch().Key("k").Build()).Error() == nil, "WATCH in the session")
		// a shared-pipeline call and a blocking call of other callers in the middle of the session
		client.Do(context.Background(), client.B().Get().Key("other").Build())
		client.Do(context.Background(), client.B().Blpop().Key("q").Timeout(0).Build())
		rs := dc.DoMulti(context.Background(), dc.B().Multi().Build(), dc.B().Incr().Key("k").Build(), dc.B().Exec().Build())
		verifAssert(len(rs) == 3, "transaction results")
		if installInval {
			dc.SetOnInvalidations(func([]RedisMessage) {})
		}
		return nil
	}
	if viaFn {
		client.Dedicated(session)
	} else {
		d, release = client.Dedicate()
		session(d)
		release()
		if verifChoose(2) == 1 {
			release() // releasing twice is harmless
		}
	}
	_ = hooks
	// the dedicated wire saw exactly the session's commands, in order, and nobody else's
	var dw *verifWire
	for _, w := range wires {
		for _, c := range w.log {
			if c == "WATCH" {
				dw = w
			}
		}
	}
	verifAssert(dw != nil, "the session ran on a pooled connection")
	want := []string{"WATCH", "MULTI", "INCR", "EXEC"}
	if installInval {
		want = append(want, "CLIENT") // CLIENT TRACKING OFF before the connection is reused
	}
	verifAssert(len(dw.log) == len(want), "the dedicated connection carries exactly the session's commands (plus tracking-off on release)")
	for i := range want {
		if i < len(dw.log) {
			verifAssert(dw.log[i] == want[i], "session commands are not interleaved with other callers' commands")
		}
	}
	for _, w := range wires {
		if w != dw {
			for _, c := range w.log {
				verifAssert(c == "GET" || c == "BLPOP", "other callers' commands use other connections")
			}
		}
	}
	// returned clean: hooks reset, subscriptions cleaned, back in the pool exactly once
	verifAssert(dw.hooksSet >= 1 && dw.cleaned == 1 && dw.hooks.isZero(), "the connection is returned without the session's hooks and subscriptions")
	if installInval {
		verifAssert(dw.log[len(dw.log)-1] == "CLIENT", "tracking is turned off before the connection goes back to the pool")
		verifReach("trackingoff")
	}
	inPool := 0
	for _, w := range m.dpool.list {
		if w == wire(dw) {
			inPool++
		}
	}
	verifAssert(inPool == 1, "the connection is returned to the pool exactly once")
	// single use
	before := len(dw.log)
	verifAssert(d.Do(context.Background(), d.B().Get().Key("k").Build()).Error() == ErrDedicatedClientRecycled, "a released dedicated client rejects Do")
	rs := d.DoMulti(context.Background(), d.B().Get().Key("k").Build())
	verifAssert(len(rs) == 1 && rs[0].Error() == ErrDedicatedClientRecycled, "a released dedicated client rejects DoMulti")
	verifAssert(d.Receive(context.Background(), d.B().Subscribe().Channel("c").Build(), func(PubSubMessage) {}) == ErrDedicatedClientRecycled, "a released dedicated client rejects Receive")
	verifAssert(<-d.SetPubSubHooks(PubSubHooks{}) == ErrDedicatedClientRecycled, "a released dedicated client rejects SetPubSubHooks")
	verifAssert(<-d.SetOnInvalidations(nil) == ErrDedicatedClientRecycled, "a released dedicated client rejects SetOnInvalidations")
	verifAssert(len(dw.log) == before, "nothing reaches the connection after release")
	verifReach("done")
}

// VerifC25_concurrentRelease: the release function and Close of one dedicated client race
// (a deferred cancel and a watchdog, say): the connection goes back to the pool exactly once, so
// the next two dedicated clients never share a connection.
func VerifC25_concurrentRelease() {
	var wires []*verifWire
	mkWire := func(ctx context.Context) wire {
		w := &verifWire{id: len(wires) + 1}
		w.doFn = func(cmd Completed) RedisResult {
			w.log = append(w.log, cmd.Commands()[0]+" "+cmd.Commands()[len(cmd.Commands())-1])
			return NewResult(strmsg(typeSimpleString, "OK"), nil)
		}
		w.doMultiFn = func(multi []Completed) []RedisResult {
			rs := make([]RedisResult, len(multi))
			for i := range multi {
				rs[i] = NewResult(strmsg(typeSimpleString, "OK"), nil)
			}
			return rs
		}
		wires = append(wires, w)
		return w
	}
	opt := &ClientOption{BlockingPoolSize: 2}
	m := newMux("dst", opt, (*verifWire)(nil), &verifWire{id: -1, err: ErrClosing}, mkWire, mkWire)
	client := newSingleClientWithConn(m, cmds.NewBuilder(cmds.NoSlot), false, false, newRetryer(defaultRetryDelayFn), false)
	d, release := client.Dedicate()
	verifAssert(d.Do(context.Background(), d.B().Set().Key("k").Value("first").Build()).Error() == nil, "the session works")
	verifGo("release", func() { release() })
	verifGo("close", func() {
		if verifChoose(2) == 1 {
			d.Close()
		} else {
			release()
		}
	})
	verifJoin()
	verifAssert(d.Do(context.Background(), d.B().Get().Key("k").Build()).Error() == ErrDedicatedClientRecycled, "a released dedicated client rejects Do")
	d1, r1 := client.Dedicate()
	d2, r2 := client.Dedicate()
	verifAssert(d1.Do(context.Background(), d1.B().Set().Key("k").Value("one").Build()).Error() == nil, "the next session works")
	verifAssert(d2.Do(context.Background(), d2.B().Set().Key("k").Value("two").Build()).Error() == nil, "the next session works")
	for _, w := range wires {
		one, two := false, false
		for _, l := range w.log {
			if l == "SET one" {
				one = true
			}
			if l == "SET two" {
				two = true
			}
		}
		verifAssert(!(one && two), "two live dedicated clients never share a connection")
	}
	r1()
	r2()
	verifReach("released")
}
