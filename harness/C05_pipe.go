package rueidis

import (
	"context"
	"time"

	"github.com/redis/rueidis/internal/cmds"
)

// C05 (pipeline part): a queued call whose context is cancelled returns the context error
// without needing any further server event; a call whose context is already done sends nothing.
func VerifC05_pipeCtx() {
	conn := newVerifConn()
	srv := newVerifServer(conn)
	p := verifNewPipe(conn, verifChoose(2) == 1)
	if verifChoose(2) == 1 {
		p.background() // AlwaysPipelining
	}
	verifGo("server", func() {
		verifDaemon()
		for {
			if _, ok := srv.next(); !ok { // reads commands, never answers
				return
			}
		}
	})
	ctx, cancel := context.WithCancel(context.Background())
	kind := verifChoose(4) // 0 Do, 1 DoMulti, 2 DoCache (owner of the flight), 3 DoMultiCache
	multi := kind == 1
	verifGo("caller", func() {
		if kind == 2 {
			r := p.DoCache(ctx, verifGetCache("ck"), time.Minute)
			verifAssert(r.NonRedisError() == context.Canceled, "a cancelled cached read returns the context error")
		} else if kind == 3 {
			rs := p.DoMultiCache(ctx, CT(verifGetCache("ck1"), time.Minute), CT(verifGetCache("ck2"), time.Minute))
			for _, r := range rs.s {
				verifAssert(r.NonRedisError() == context.Canceled, "a cancelled cached batch returns the context error for every command")
			}
		} else if multi {
			rs := p.DoMulti(ctx, verifIDCmd(1), verifIDCmd(2))
			for _, r := range rs.s {
				verifAssert(r.NonRedisError() == context.Canceled, "a cancelled batch returns the context error for every command")
			}
		} else {
			r := p.Do(ctx, verifIDCmd(1))
			verifAssert(r.NonRedisError() == context.Canceled, "a cancelled call returns the context error")
		}
		verifReach("returned")
	})
	verifGo("canceller", func() { cancel() })
	verifJoin()
}

// VerifC05_pipeDone: a call whose context is already done writes nothing to the connection.
func VerifC05_pipeDone() {
	conn := newVerifConn()
	p := verifNewPipe(conn, verifChoose(2) == 1)
	if verifChoose(2) == 1 {
		p.background()
	}
	ctx, cancel := context.WithCancel(context.Background())
	cancel()
	switch verifChoose(4) {
	case 0:
		r := p.Do(ctx, verifIDCmd(1))
		verifAssert(r.NonRedisError() == context.Canceled, "context error returned")
	case 1:
		rs := p.DoMulti(ctx, verifIDCmd(1), verifIDCmd(2))
		verifAssert(rs.s[0].NonRedisError() == context.Canceled && rs.s[1].NonRedisError() == context.Canceled, "context error returned for the batch")
	case 2:
		pl := newPool(1, deadFn(), 0, 0, func(context.Context) wire { return p })
		s := pl.Acquire(context.Background()).DoStream(ctx, pl, verifIDCmd(1))
		verifAssert(s.Error() == context.Canceled, "context error returned for the stream")
	default:
		err := p.Receive(ctx, verifSubCmd("ch"), func(PubSubMessage) {})
		verifAssert(err == context.Canceled, "context error returned by Receive")
	}
	verifSettle()
	verifAssert(conn.out.total == 0, "a call whose context is already done sends nothing")
	verifReach("nothing")
}

func verifSubCmd(ch string) Completed {
	return cmds.NewBuilder(cmds.NoSlot).Subscribe().Channel(ch).Build()
}
