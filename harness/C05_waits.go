package rueidis

import (
	"context"
	"time"
)

// C05: waits on another caller's client-side-cache flight honour cancellation.
func VerifC05_cacheWait() {
	var st CacheStore
	if verifChoose(2) == 0 {
		st = newLRU(CacheStoreOption{CacheSizeEachConn: 1 << 20})
	} else {
		st = NewSimpleCacheAdapter(&verifSimpleCache{m: map[string]RedisMessage{}})
	}
	now := time.Now()
	_, e := st.Flight("k", "GET", time.Minute, now) // the owner: sends, never completes
	verifAssert(e == nil, "owner is told to send")
	_, e = st.Flight("k", "GET", time.Minute, now) // a second caller: waits on the flight
	verifAssert(e != nil, "second caller waits on the owner's flight")
	ctx, cancel := context.WithCancel(context.Background())
	outcome := verifChoose(3)
	done := false
	verifGo("waiter", func() {
		v, err := e.Wait(ctx)
		done = true
		switch outcome {
		case 0:
			verifAssert(err == context.Canceled, "a cancelled wait returns the context error")
			verifReach("cancelled")
		case 1:
			verifAssert(err == nil && v.string() == "v", "the owner's reply is delivered to the waiter")
			verifReach("delivered")
		default:
			verifAssert(err == verifErrPage, "the owner's failure is delivered to the waiter")
			verifReach("failed")
		}
	})
	verifGo("env", func() {
		switch outcome {
		case 0:
			cancel()
		case 1:
			st.Update("k", "GET", strmsg(typeSimpleString, "v"))
		default:
			st.Cancel("k", "GET", verifErrPage)
		}
	})
	verifJoin()
	verifAssert(done, "the waiter returned")
}
