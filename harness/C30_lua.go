package rueidis

import (
	"context"
	"strconv"
)

// C30: Lua.Exec runs the script body at most once.

func VerifC30_exec() {
	const body = "return redis.call('GET', KEYS[1])"
	kind := verifChoose(6)
	loadSha := kind != 2 && kind != 3 && kind != 5 && verifChoose(2) == 1
	var opts []LuaOption
	if loadSha {
		opts = append(opts, WithLoadSHA1(true))
	}
	var l *Lua
	readonly, noSha := false, false
	switch kind {
	case 0:
		l = NewLuaScript(body, opts...)
	case 1:
		l, readonly = NewLuaScriptReadOnly(body, opts...), true
	case 2:
		l, noSha = NewLuaScriptNoSha(body), true
	case 3:
		l, readonly, noSha = NewLuaScriptReadOnlyNoSha(body), true, true
	case 4:
		l = NewLuaScriptRetryable(body, opts...)
	default:
		l, noSha = NewLuaScriptNoShaRetryable(body), true
	}
	// server behaviour per command, by decision
	loadOK := true
	c := &verifClient{}
	shaAnswer := -1 // what the last EVALSHA was answered with (0 = NOSCRIPT)
	c.answer = func(argv []string) RedisResult {
		switch argv[0] {
		case "SCRIPT":
			if verifChoose(2) == 0 {
				loadOK = false
				return verifErrReply("ERR load failed")
			}
			return NewResult(strmsg(typeBlobString, "0123456789abcdef0123456789abcdef01234567"), nil)
		case "EVALSHA", "EVALSHA_RO":
			shaAnswer = verifChoose(4)
			switch shaAnswer {
			case 0:
				return verifErrReply("NOSCRIPT No matching script. Please use EVAL.")
			case 1:
				return verifErrReply("ERR script failed")
			case 2:
				return NewErrorResult(verifErrPage) // transport error
			}
			return NewResult(strmsg(typeBlobString, "sha-result"), nil)
		default:
			if verifChoose(2) == 0 {
				return verifErrReply("ERR script failed")
			}
			return NewResult(strmsg(typeBlobString, "eval-result"), nil)
		}
	}
	keys := []string{"k1"}
	args := []string{verifNondetString(verifChoose(3))}
	execs := 1 + verifChoose(2) // a second Exec sees the SHA the first one loaded
	for e := 0; e < execs; e++ {
		start := len(c.log)
		shaKnown := l.sha1 != ""
		resp := l.Exec(context.Background(), c, keys, args)
		sent := c.log[start:]
		nBody, nSha, nLoad := 0, 0, 0
		var last []string
		for i, argv := range sent {
			last = argv
			switch argv[0] {
			case "SCRIPT":
				nLoad++
				verifAssert(i == 0 && loadSha && !shaKnown, "SCRIPT LOAD is sent first, only with WithLoadSHA1, and only while the SHA is unknown")
			case "EVALSHA", "EVALSHA_RO":
				nSha++
				verifAssert(!noSha, "NoSha scripts never send EVALSHA")
				verifAssert((argv[0] == "EVALSHA_RO") == readonly, "read-only scripts use EVALSHA_RO only")
			case "EVAL", "EVAL_RO":
				nBody++
				verifAssert((argv[0] == "EVAL_RO") == readonly, "read-only scripts use EVAL_RO only")
				verifAssert(argv[1] == body, "EVAL carries the script body")
			default:
				verifFail("unexpected command " + argv[0])
			}
			if argv[0] != "SCRIPT" {
				verifAssert(len(argv) == 3+len(keys)+len(args) && argv[2] == strconv.Itoa(len(keys)) && argv[3] == keys[0] && argv[4] == args[0], "keys and arguments are passed through in order")
			}
		}
		verifAssert(nBody <= 1 && nSha <= 1, "the script body runs at most once per Exec")
		if nBody == 1 && !noSha {
			verifAssert(nSha == 1, "EVAL is used only after EVALSHA was answered with NOSCRIPT")
			prev := sent[len(sent)-2]
			verifAssert(prev[0] == "EVALSHA" || prev[0] == "EVALSHA_RO", "EVAL directly follows the EVALSHA that failed with NOSCRIPT")
			verifAssert(shaAnswer == 0, "the script is submitted a second time only after a NOSCRIPT reply (never after an error reply, a transport error or a timeout, when the first submission may have run)")
			verifReach("fallback")
		}
		if !loadOK {
			verifAssert(nBody == 0 && nSha == 0 && resp.Error() != nil, "a failed SCRIPT LOAD fails the Exec without running anything")
			verifReach("loadfailed")
			return
		}
		_ = last
		if nBody+nSha > 0 {
			verifReach("ran")
		}
	}
}

// VerifC30_multi: ExecMulti returns one result per LuaExec, in order.
func VerifC30_multi() {
	const body = "return ARGV[1]"
	var l *Lua
	switch verifChoose(3) {
	case 0:
		l = NewLuaScript(body)
	case 1:
		l = NewLuaScriptNoSha(body)
	default:
		l = NewLuaScriptReadOnly(body, WithLoadSHA1(true))
	}
	n := 1 + verifChoose(3)
	c := &verifClient{}
	c.answer = func(argv []string) RedisResult {
		if argv[0] == "SCRIPT" {
			return NewResult(strmsg(typeBlobString, "0123456789abcdef0123456789abcdef01234567"), nil)
		}
		return NewResult(strmsg(typeBlobString, "r:"+argv[len(argv)-1]), nil) // echoes its last argument
	}
	multi := make([]LuaExec, n)
	for i := range multi {
		multi[i] = LuaExec{Keys: []string{"k"}, Args: []string{strconv.Itoa(i)}}
	}
	rs := l.ExecMulti(context.Background(), c, multi...)
	verifAssert(len(rs) == n, "one result per LuaExec")
	for i := range rs {
		s, err := rs[i].ToString()
		verifAssert(err == nil && s == "r:"+strconv.Itoa(i), "result i belongs to LuaExec i")
	}
	verifReach("multi")
}
