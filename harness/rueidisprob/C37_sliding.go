package rueidisprob

import (
	"context"
	"time"
)

// C37: sliding-window Bloom filter. The server clock is symbolic; key expiry (the rotation lock,
// SET ... PX windowHalf NX) is by the server clock; every operation may rotate the filters.

func VerifC37_window() {
	red := &verifRedis{}
	t00 := verifNondetInt64()
	verifAssume(t00 > 0)
	verifAssume(t00 < 1<<42)
	red.nowMs = t00
	sc := &verifScriptClient{r: red}
	var window time.Duration
	switch verifChoose(4) {
	case 0:
		window = time.Second
	case 1:
		window = 2001 * time.Millisecond // odd: the lock lasts floor(ms/2)
	case 2:
		window = 1500 * time.Millisecond // not a whole number of seconds
	default:
		window = time.Hour
	}
	wh := window.Milliseconds() / 2
	var bf BloomFilter
	var err error
	if verifChoose(2) == 1 {
		bf, err = NewSlidingBloomFilter(sc, "f", 10, 0.5, window, WithReadOnlyExists(true))
	} else {
		bf, err = NewSlidingBloomFilter(sc, "f", 10, 0.5, window)
	}
	verifAssert(err == nil, "filter created and initialised")
	s := bf.(*slidingBloomFilter)
	size := verifNondetUint64()
	verifAssume(size >= 1)
	verifAssume(size <= maxSize)
	s.size = uint(size)
	k := uint(verifChoose(int(verifParam("max_k", 2))) + 1)
	s.hashIterations = k
	s.hashIterationString = verifUtoa(uint64(k))
	// the filter has been in use for a while: arbitrary contents in both generations, and an
	// arbitrary amount of time has passed since the last rotation
	red.key("{f}").arbitraryBits = true
	red.key("{f}" + nextFilterSuffix).arbitraryBits = true
	advance := func() {
		d := verifNondetInt64()
		verifAssume(d >= 0)
		verifAssume(d < 1<<40)
		red.nowMs += d
	}
	ctx := context.Background()
	advance()
	t0 := red.nowMs
	if verifChoose(2) == 1 {
		verifAssert(bf.AddMulti(ctx, []string{"y", "x"}) == nil, "add succeeds")
	} else {
		verifAssert(bf.Add(ctx, "x") == nil, "add succeeds")
	}
	ops := int(verifParam("ops", 2))
	for i := 0; i < ops; i++ {
		advance()
		verifAssume(red.nowMs <= t0+wh)
		switch verifChoose(3) {
		case 0:
			verifAssert(bf.Add(ctx, "z") == nil, "add succeeds")
		case 1:
			_, err := bf.Exists(ctx, "q")
			verifAssert(err == nil, "query succeeds")
		default:
			ok, err := bf.Exists(ctx, "x")
			verifAssert(err == nil && ok, "an added item is reported present for half a window after the add")
		}
	}
	advance()
	verifAssume(red.nowMs <= t0+wh)
	if red.nowMs == t0+wh {
		verifReach("boundary")
	}
	rotations := 0
	for _, c := range red.calls {
		if c == "RENAME" {
			rotations++
		}
	}
	if rotations > 2 { // initialisation does not rename; each rotation renames twice
		verifReach("rotated")
	}
	res, err := bf.ExistsMulti(ctx, []string{"q", "x"})
	verifAssert(err == nil && len(res) == 2, "one answer per queried key")
	verifAssert(res[1], "an added item is reported present for half a window after the add")
	verifReach("present")
}
