package rueidisprob

//verif:use luasym

import (
	"context"
	"math"
)

// ---- stand-ins for murmur3 and for the index arithmetic in the history harnesses.
// verifHash: the key's identity (a small number) instead of its murmur3 digest; verifIndex: an
// arbitrary function of (key, i) into [0, size): the same (key, i) always yields the same index,
// different pairs unrelated indexes (which may or may not collide). index() itself is checked
// by VerifC35_index on symbolic inputs.

var verifHashKeys []string

func verifHash(data []byte) (uint64, uint64) {
	k := string(data)
	for i := range verifHashKeys {
		if verifHashKeys[i] == k {
			return uint64(i + 1), 0
		}
	}
	verifHashKeys = append(verifHashKeys, k)
	return uint64(len(verifHashKeys)), 0
}

var verifIdxKey, verifIdxI, verifIdxVal []uint64

func verifIndex(h1, h2 uint64, i uint, size uint64) uint64 {
	for j := range verifIdxKey {
		if verifIdxKey[j] == h1 && verifIdxI[j] == uint64(i) {
			return verifIdxVal[j]
		}
	}
	v := verifNondetUint64()
	verifAssume(v < size)
	verifIdxKey = append(verifIdxKey, h1)
	verifIdxI = append(verifIdxI, uint64(i))
	verifIdxVal = append(verifIdxVal, v)
	return v
}

// VerifC35_index: the real index(): always inside the bitmap.
func VerifC35_index() {
	h1, h2, size := verifNondetUint64(), verifNondetUint64(), verifNondetUint64()
	i := uint(verifNondetUint64())
	verifAssume(size >= 1)
	verifAssert(index(h1, h2, i, size) < size, "every bit index is inside the filter")
	verifAssert(index(h1, h2, i, size) == index(h1, h2, i, size), "the index is a function of its inputs")
	verifReach("index")
}

// VerifC35_sizing: whatever the float arithmetic yields, an accepted configuration has
// 1 <= size <= 2^32 and at least one hash function.
func VerifC35_sizing() {
	n := uint(verifNondetUint64())
	r := math.Float64frombits(verifNondetUint64())
	sc := &verifScriptClient{r: &verifRedis{nowMs: 1}}
	bf, err := NewBloomFilter(sc, "f", n, r)
	if err != nil {
		verifReach("rejected")
		return
	}
	b := bf.(*bloomFilter)
	verifAssert(b.size >= 1 && b.size <= maxSize, "an accepted configuration has a usable size")
	verifAssert(b.hashIterations >= 1, "an accepted configuration uses at least one hash function")
	verifReach("accepted")
}

// VerifC35_config: concrete configurations through the real float arithmetic.
func VerifC35_config() {
	var n uint
	var r float64
	switch verifChoose(6) {
	case 0:
		n, r = 10, 0.5
	case 1:
		n, r = 10, 0.3
	case 2:
		n, r = 100, 0.1
	case 3:
		n, r = 10, 0.9 // very permissive rate: round(size/n*ln2) = 0
	case 4:
		n, r = 1, 0.99
	default:
		n, r = 1000, 0.01
	}
	red := &verifRedis{nowMs: 1}
	sc := &verifScriptClient{r: red}
	bf, err := NewBloomFilter(sc, "f", n, r)
	verifAssert(err == nil, "configuration accepted")
	err = bf.Add(context.Background(), "x")
	verifAssert(err == nil, "add succeeds")
	ok, err := bf.Exists(context.Background(), "x")
	verifAssert(err == nil, "exists succeeds")
	verifAssert(ok, "an added item is reported present")
	cnt, err := bf.Count(context.Background())
	verifAssert(err == nil && cnt == 1, "one item counted")
	verifReach("present")
}

func verifBloom(red *verifRedis) (*bloomFilter, *verifScriptClient) {
	sc := &verifScriptClient{r: red}
	var bf BloomFilter
	var err error
	if verifChoose(2) == 1 {
		bf, err = NewBloomFilter(sc, "f", 10, 0.5, WithEnableReadOperation(true))
	} else {
		bf, err = NewBloomFilter(sc, "f", 10, 0.5)
	}
	verifAssert(err == nil, "configuration accepted")
	b := bf.(*bloomFilter)
	// any accepted configuration (VerifC35_sizing): size in [1, 2^32], k >= 1
	size := verifNondetUint64()
	verifAssume(size >= 1 && size <= maxSize)
	b.size = uint(size)
	k := uint(verifChoose(int(verifParam("max_k", 3))) + 1)
	b.hashIterations = k
	b.hashIterationString = verifUtoa(uint64(k))
	return b, sc
}

func verifCount(bf BloomFilter) uint64 {
	c, err := bf.Count(context.Background())
	verifAssert(err == nil, "count succeeds")
	return c
}

// VerifC35_history: arbitrary filter contents, then adds and queries.
func VerifC35_history() {
	red := &verifRedis{nowMs: 1}
	if verifChoose(2) == 1 {
		// an existing filter with arbitrary contents and an arbitrary count
		c0 := verifNondetInt64()
		verifAssume(c0 >= 0 && c0 < 1<<50)
		red.keys = append(red.keys,
			&verifRKey{name: "{f}", present: true, val: luaS(""), arbitraryBits: true},
			&verifRKey{name: "{f}:c", present: true, val: luaNumStr(c0)})
		verifReach("existing")
	}
	b, _ := verifBloom(red)
	ctx := context.Background()
	c0 := verifCount(b)
	var added []string
	switch verifChoose(4) {
	case 0:
		verifAssert(b.Add(ctx, "x") == nil, "add succeeds")
		added = []string{"x"}
	case 1:
		verifAssert(b.AddMulti(ctx, []string{"x", "y"}) == nil, "add succeeds")
		added = []string{"x", "y"}
	case 2:
		verifAssert(b.AddMulti(ctx, []string{"y", "x"}) == nil, "add succeeds")
		added = []string{"x", "y"}
	default:
		verifAssert(b.AddMulti(ctx, []string{"x", "x"}) == nil, "add succeeds")
		added = []string{"x"}
	}
	c1 := verifCount(b)
	verifAssert(c1 >= c0, "Count never decreases through adds")
	verifAssert(c1 <= c0+uint64(len(added)), "Count grows by at most the number of distinct items added")
	if verifChoose(2) == 1 {
		// somebody else's items arrive in between
		verifAssert(b.AddMulti(ctx, []string{"z", "w"}) == nil, "add succeeds")
		c2 := verifCount(b)
		verifAssert(c2 >= c1, "Count never decreases through adds")
		verifReach("interleaved")
	}
	var query []string
	switch verifChoose(4) {
	case 0:
		query = []string{"x"}
	case 1:
		query = []string{"q", "x"}
	case 2:
		query = []string{"x", "q", "y"}
	default:
		query = []string{"y", "x", "x"}
	}
	res, err := b.ExistsMulti(ctx, query)
	verifAssert(err == nil, "query succeeds")
	verifAssert(len(res) == len(query), "one answer per queried key")
	for i, q := range query {
		for _, a := range added {
			if q == a {
				verifAssert(res[i], "an added item is reported present at its position")
			}
		}
	}
	ok, err := b.Exists(ctx, "x")
	verifAssert(err == nil && ok, "an added item is reported present")
	verifReach("present")
	if len(query) > 1 && !res[1] {
		verifReach("absent") // a never-added key may be reported absent: the answers are per key
	}
}
