package rueidisprob

import (
	"context"
)

// C36: counting Bloom filter. Redis side: HINCRBY/HGET/HMGET on a hash whose pre-existing
// counters are arbitrary non-negative numbers (contributions of other items).

func verifCounting(red *verifRedis) (*countingBloomFilter, *verifScriptClient) {
	sc := &verifScriptClient{r: red}
	cf, err := NewCountingBloomFilter(sc, "f", 10, 0.5)
	verifAssert(err == nil, "configuration accepted")
	f := cf.(*countingBloomFilter)
	size := verifNondetUint64()
	verifAssume(size >= 1)
	verifAssume(size < 1<<40)
	f.size = uint(size)
	k := uint(verifChoose(int(verifParam("max_k", 2))) + 1)
	f.hashIterations = k
	f.hashIterationString = verifUtoa(uint64(k))
	return f, sc
}

func verifCountingState(red *verifRedis) {
	if verifChoose(2) == 1 {
		c0 := verifNondetInt64()
		verifAssume(c0 >= 0)
		verifAssume(c0 < 1<<50)
		red.keys = append(red.keys,
			&verifRKey{name: "{f}:cbf", present: true, isHash: true, arbitraryHash: true},
			&verifRKey{name: "{f}:cbf:c", present: true, val: luaNumStr(c0)})
		verifReach("existing")
	}
}

func verifNoNegativeCounter(red *verifRedis) {
	h := red.key("{f}:cbf")
	for i := range h.hvals {
		verifAssert(h.hvals[i] >= 0, "no counter becomes negative")
	}
}

func verifCheckPresent(f *countingBloomFilter, item string, mult int64) {
	ctx := context.Background()
	if mult <= 0 {
		return
	}
	ok, err := f.Exists(ctx, item)
	verifAssert(err == nil && ok, "an item added more often than removed is reported present")
	c, err := f.ItemMinCount(ctx, item)
	verifAssert(err == nil && c >= uint64(mult), "ItemMinCount never reports less than the net multiplicity")
}

// VerifC36_history: adds and (admissible) removals of two items over an arbitrary pre-state.
func VerifC36_history() {
	red := &verifRedis{nowMs: 1}
	verifCountingState(red)
	f, sc := verifCounting(red)
	// one reply may be lost after the server executed the command (see verifScriptClient.lostReplies)
	sc.lostReplies = int(verifParam("lost_replies", 1))
	ctx := context.Background()
	var mx, my int64
	steps := int(verifParam("steps", 3))
	// the call's effect has been applied exactly once whether or not its reply arrived
	applied := func(err error) {
		if err != nil {
			verifAssert(err == verifErrTransport, "only the injected fault may fail a call")
			verifReach("lostreply")
		}
	}
	for s := 0; s < steps; s++ {
		switch verifChoose(7) {
		case 0:
			applied(f.Add(ctx, "x"))
			mx++
		case 1:
			applied(f.AddMulti(ctx, []string{"x", "y"}))
			mx++
			my++
		case 2:
			applied(f.AddMulti(ctx, []string{"x", "x"}))
			mx += 2
		case 3:
			applied(f.Add(ctx, "y"))
			my++
		case 4:
			if mx < 1 {
				verifAssume(false)
			}
			applied(f.Remove(ctx, "x"))
			mx--
			verifReach("removed")
		case 5:
			if mx < 1 || my < 1 {
				verifAssume(false)
			}
			applied(f.RemoveMulti(ctx, []string{"y", "x"}))
			mx--
			my--
			verifReach("removed")
		default:
			if mx < 2 {
				verifAssume(false)
			}
			applied(f.RemoveMulti(ctx, []string{"x", "x"}))
			mx -= 2
			verifReach("removed")
		}
		verifNoNegativeCounter(red)
	}
	sc.lostReplies = 0
	verifCheckPresent(f, "x", mx)
	verifCheckPresent(f, "y", my)
	res, err := f.ExistsMulti(ctx, []string{"y", "x"})
	verifAssert(err == nil && len(res) == 2, "one answer per queried key")
	if mx > 0 {
		verifAssert(res[1], "answers are per key, in order")
	}
	if my > 0 {
		verifAssert(res[0], "answers are per key, in order")
	}
	cs, err := f.ItemMinCountMulti(ctx, []string{"y", "x"})
	verifAssert(err == nil && len(cs) == 2 && cs[0] >= uint64(my) && cs[1] >= uint64(mx), "ItemMinCountMulti answers per key, in order")
	verifReach("queried")
}

// VerifC36_refused: a removal that would drive a counter negative changes nothing, and does not
// disturb the admissible removals of the same call.
func VerifC36_refused() {
	red := &verifRedis{nowMs: 1}
	verifCountingState(red)
	f, _ := verifCounting(red)
	ctx := context.Background()
	verifAssert(f.Add(ctx, "x") == nil, "add succeeds")
	// w: an item at least one of whose counters is zero
	h := red.key("{f}:cbf")
	cw, err := f.ItemMinCount(ctx, "w")
	verifAssert(err == nil, "count succeeds")
	verifAssume(cw == 0) // (w may share counters with x, but not all of them)
	c0, err := f.Count(ctx)
	verifAssert(err == nil, "count succeeds")
	before := append([]int64{}, h.hvals...)
	red.calls = nil
	shape := verifChoose(4)
	switch shape {
	case 0:
		verifAssert(f.Remove(ctx, "w") == nil, "remove call succeeds")
	case 1:
		verifAssert(f.RemoveMulti(ctx, []string{"w", "w"}) == nil, "remove call succeeds")
	case 2:
		verifAssert(f.RemoveMulti(ctx, []string{"x", "w"}) == nil, "remove call succeeds")
	default:
		verifAssert(f.RemoveMulti(ctx, []string{"w", "x"}) == nil, "remove call succeeds")
	}
	c1, err := f.Count(ctx)
	verifAssert(err == nil, "count succeeds")
	verifNoNegativeCounter(red)
	if shape <= 1 {
		for i := range before {
			verifAssert(h.hvals[i] == before[i], "a refused removal changes no counter")
		}
		for _, c := range red.calls {
			verifAssert(c != "HINCRBY", "a refused removal writes nothing")
		}
		verifAssert(c1 == c0, "a refused removal does not change Count")
		verifReach("refused")
	} else {
		// x may share counters with w: whichever of the two is processed first may consume the shared
		// counter; what must hold: no counter negative (above) and at most one item removed
		verifAssert(c1 == c0 || c1+1 == c0, "at most the admissible removal is applied")
		verifReach("mixed")
	}
}
