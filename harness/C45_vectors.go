package rueidis

import "math"

// C45: vector and binary helpers round-trip bit for bit.

func VerifC45_vector32() {
	n := verifChoose(verifParam("max_len", 3) + 1)
	bits := make([]uint32, n)
	v := make([]float32, n)
	for i := range v {
		bits[i] = verifNondetUint32() // every bit pattern: NaN payloads, ±0, subnormals
		v[i] = math.Float32frombits(bits[i])
	}
	s := VectorString32(v)
	verifAssert(len(s) == 4*n, "4 bytes per element")
	for i := 0; i < n; i++ {
		for k := 0; k < 4; k++ {
			verifAssert(s[4*i+k] == byte(bits[i]>>(8*uint(k))), "float32 is packed little-endian")
		}
	}
	back := ToVector32(s)
	verifAssert(len(back) == n, "same element count")
	for i := range back {
		verifAssert(math.Float32bits(back[i]) == bits[i], "float32 round-trips bit for bit")
	}
	verifReach("v32")
}

func VerifC45_vector64() {
	n := verifChoose(verifParam("max_len", 3) + 1)
	bits := make([]uint64, n)
	v := make([]float64, n)
	for i := range v {
		bits[i] = verifNondetUint64()
		v[i] = math.Float64frombits(bits[i])
	}
	s := VectorString64(v)
	verifAssert(len(s) == 8*n, "8 bytes per element")
	for i := 0; i < n; i++ {
		for k := 0; k < 8; k++ {
			verifAssert(s[8*i+k] == byte(bits[i]>>(8*uint(k))), "float64 is packed little-endian")
		}
	}
	back := ToVector64(s)
	verifAssert(len(back) == n, "same element count")
	for i := range back {
		verifAssert(math.Float64bits(back[i]) == bits[i], "float64 round-trips bit for bit")
	}
	verifReach("v64")
}

func VerifC45_binary() {
	n := verifChoose(verifParam("max_bytes", 6) + 1)
	b := verifNondetBytes(n)
	s := BinaryString(b)
	verifAssert(len(s) == n, "same length")
	for i := 0; i < n; i++ {
		verifAssert(s[i] == b[i], "same bytes")
	}
	verifReach("bin")
}
