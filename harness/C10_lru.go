package rueidis

import (
	"container/list"
	"time"
)

// C10: client-side cache memory stays within CacheSizeEachConn.

// verifLRUInv: accounted size equals the sum over completed entries in the list; every list
// element is indexed by store[key].cache[cmd]; returns (sum, number of completed entries).
func verifLRUInv(c *lru, when string) (sum int, completed int) {
	n := 0
	for ele := c.list.Front(); ele != nil; ele = ele.Next() {
		e := ele.Value.(*cacheEntry)
		n++
		verifAssert(e.kc != nil && c.store[e.kc.key] == e.kc && e.kc.cache[e.cmd] == ele, "every list element is indexed by the store ("+when+")")
		if e.val.typ != 0 {
			sum += e.size
			completed++
		}
	}
	idx := 0
	for _, kc := range c.store {
		idx += len(kc.cache)
	}
	verifAssert(idx == n, "every indexed entry is in the list ("+when+")")
	verifAssert(c.size == sum, "accounted size equals the sum of the retained completed entries ("+when+")")
	return sum, completed
}

// VerifC10_update: one Update from an arbitrary quiescent state (rely/guarantee step).
func VerifC10_update() {
	n := verifChoose(verifParam("max_entries", 4) + 1)
	now := time.Now()
	c := newLRU(CacheStoreOption{CacheSizeEachConn: 1 << 60}).(*lru)
	keys := []string{"k0", "k1", "k2", "k3", "k4", "k5", "k6"}
	isDone := make([]bool, n)
	sizes := make([]int, n)
	total := 0
	for i := 0; i < n; i++ {
		key := keys[i]
		if i > 0 && verifChoose(3) == 0 {
			key = keys[i-1] // two commands under one key
		}
		cmd := string([]byte{'C', '0' + byte(i)})
		c.Flight(key, cmd, time.Minute, now)
		if verifChoose(2) == 0 {
			isDone[i] = true
			c.Update(key, cmd, strmsg(typeSimpleString, "v"))
			e := c.store[key].cache[cmd].Value.(*cacheEntry)
			sizes[i] = verifNondetInt(entryMinSize, 1<<40) // any accounted size
			e.size = sizes[i]
			total += sizes[i]
		}
	}
	c.size = total
	c.max = verifNondetInt(0, 1<<50)
	// quiescent precondition: within budget, or nothing evictable
	verifAssume(c.size <= c.max || total == 0)
	// the operation: a pending flight completes with a value of arbitrary accounted size
	c.Flight("kx", "GET", time.Minute, now)
	order := make([]*cacheEntry, 0, n+1)
	for ele := c.list.Front(); ele != nil; ele = ele.Next() {
		order = append(order, ele.Value.(*cacheEntry))
	}
	c.Update("kx", "GET", strmsg(typeBlobString, verifNondetString(verifChoose(3))))
	newE := order[len(order)-1]
	verifAssert(newE.val.typ != 0 && newE.size >= entryMinSize, "the update completes the entry with an accounted size")
	sum, completed := verifLRUInv(c, "after Update")
	verifAssert(sum <= c.max || completed == 0, "after an update the accounted size is within CacheSizeEachConn (or no completed entry is left)")
	// evicted entries form a prefix, in LRU (list) order, of the completed entries; pending never evicted
	evictedEnded := false
	for _, e := range order {
		present := false
		for ele := c.list.Front(); ele != nil; ele = ele.Next() {
			if ele.Value.(*cacheEntry) == e {
				present = true
			}
		}
		if e.val.typ == 0 {
			verifAssert(present, "in-flight entries are never evicted")
			continue
		}
		if present {
			evictedEnded = true
		} else {
			verifAssert(!evictedEnded, "least-recently-used completed entries are evicted first")
			verifReach("evicted")
		}
	}
	if sum > 0 && len(order) > completed {
		verifReach("kept")
	}
	_ = list.New
}

// VerifC10_history: every sequence of ≤ N operations from a fresh store, with a symbolic
// budget and symbolic clock steps; the accounting invariant holds after every operation and
// the budget holds after every update.
func VerifC10_history() {
	steps := verifParam("steps", 3)
	c := newLRU(CacheStoreOption{CacheSizeEachConn: verifNondetInt(0, 4*entryMinSize+400)}).(*lru)
	now := time.Now()
	keys := []string{"a", "b"}
	cmdsN := []string{"GET", "HGETf"}
	for s := 0; s < steps; s++ {
		k := keys[verifChoose(2)]
		cm := cmdsN[verifChoose(2)]
		switch verifChoose(5) {
		case 0:
			ttl := time.Duration(verifNondetInt(1, 3)) * time.Second
			c.Flight(k, cm, ttl, now)
			verifLRUInv(c, "after Flight")
		case 1:
			v := strmsg(typeBlobString, string(make([]byte, []int{0, 100, 300}[verifChoose(3)])))
			c.Update(k, cm, v)
			sum, completed := verifLRUInv(c, "after Update")
			verifAssert(sum <= c.max || completed == 0, "after an update the accounted size is within CacheSizeEachConn (or no completed entry is left)")
			verifReach("updated")
		case 2:
			c.Cancel(k, cm, verifErrPage)
			verifLRUInv(c, "after Cancel")
		case 3:
			if verifChoose(2) == 0 {
				c.Delete(nil)
			} else {
				c.Delete([]RedisMessage{strmsg(typeBlobString, k)})
			}
			verifLRUInv(c, "after Delete")
		default:
			now = now.Add(time.Duration(verifNondetInt(0, 4)) * time.Second) // entries may expire
		}
	}
	verifReach("history")
}
