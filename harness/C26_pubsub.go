package rueidis

import (
	"context"
	"strconv"

	"github.com/redis/rueidis/internal/cmds"
)

// C26: Pub/Sub delivers exactly the subscribed messages in order; Receive returns nil on
// unsubscribe, ErrClosing on Close and the context error on cancellation; regular commands
// on the same connection keep their own replies.

func verifPush(kind string, parts ...string) string {
	s := ">" + strconv.Itoa(1+len(parts)) + "\r\n$" + strconv.Itoa(len(kind)) + "\r\n" + kind + "\r\n"
	for _, p := range parts {
		if len(p) > 0 && p[0] == ':' {
			s += p + "\r\n"
		} else {
			s += "$" + strconv.Itoa(len(p)) + "\r\n" + p + "\r\n"
		}
	}
	return s
}

func VerifC26_receive() {
	conn := newVerifConn()
	srv := newVerifServer(conn)
	p := verifNewPipe(conn, verifParam("flow", 0) == 1)
	// what the server publishes while answering "ID 1": a symbolic interleaving over channels a and b
	n := verifParam("messages", 3)
	plan := make([]int, n) // 0: channel a, 1: channel b
	for i := range plan {
		plan[i] = verifChoose(2)
	}
	var wantA, wantB []string
	for i, c := range plan {
		m := "m" + strconv.Itoa(i)
		if c == 0 {
			wantA = append(wantA, m)
		} else {
			wantB = append(wantB, m)
		}
	}
	subs := 0
	dieAfterUnsub := false
	verifGo("server", func() {
		verifDaemon()
		for {
			argv, ok := srv.next()
			if !ok {
				return
			}
			switch argv[0] {
			case "SUBSCRIBE":
				subs++
				srv.send(verifPush("subscribe", argv[1], ":"+strconv.Itoa(subs)))
			case "UNSUBSCRIBE":
				subs--
				srv.send(verifPush("unsubscribe", argv[1], ":"+strconv.Itoa(subs)))
				if dieAfterUnsub {
					conn.in.close() // the connection is lost right after the confirmation, before the PONG
					return
				}
			case "PING":
				srv.send("+PONG\r\n")
			case "ID":
				for i, c := range plan {
					srv.send(verifPush("message", []string{"a", "b"}[c], "m"+strconv.Itoa(i)))
				}
				srv.send(":" + argv[1] + "\r\n")
			}
		}
	})
	confirmed := make(chan string, 4)
	ctxA, cancelA := context.WithCancel(context.Background())
	var gotA, gotB []string
	var errA, errB error
	doneA, doneB := false, false
	verifGo("recvA", func() {
		ctx := WithOnSubscriptionHook(ctxA, func(s PubSubSubscription) {
			if s.Kind == "subscribe" {
				confirmed <- s.Channel
			}
		})
		errA = p.Receive(ctx, verifSubCmd("a"), func(m PubSubMessage) {
			verifAssert(m.Channel == "a", "a subscription never receives a message for another channel")
			gotA = append(gotA, m.Message)
		})
		doneA = true
	})
	verifGo("recvB", func() {
		ctx := WithOnSubscriptionHook(context.Background(), func(s PubSubSubscription) {
			if s.Kind == "subscribe" {
				confirmed <- s.Channel
			}
		})
		errB = p.Receive(ctx, verifSubCmd("b"), func(m PubSubMessage) {
			verifAssert(m.Channel == "b", "a subscription never receives a message for another channel")
			gotB = append(gotB, m.Message)
		})
		doneB = true
	})
	<-confirmed
	<-confirmed
	r := p.Do(context.Background(), verifIDCmd(1))
	id, e := r.AsInt64()
	verifAssert(e == nil && id == 1, "a regular command on the same connection gets its own reply")
	// how the subscriptions end
	kind := verifChoose(4)
	switch kind {
	case 3:
		dieAfterUnsub = true
		unsub := cmds.NewBuilder(cmds.NoSlot).Unsubscribe().Channel("a").Build()
		verifAssert(p.Do(context.Background(), unsub).Error() != nil, "a command whose reply is cut off by a connection loss returns an error")
		verifReach("cutoff")
	case 0:
		unsub := cmds.NewBuilder(cmds.NoSlot).Unsubscribe().Channel("a").Build()
		verifAssert(p.Do(context.Background(), unsub).Error() == nil, "UNSUBSCRIBE succeeds")
	case 1:
		cancelA()
	}
	if kind != 2 {
		// B is still subscribed; end it by closing the connection
		for !doneA {
			verifYield()
		}
	}
	p.Close()
	verifJoin()
	verifAssert(doneA && doneB, "both Receive calls returned")
	prefix := func(got, want []string, what string) {
		verifAssert(len(got) <= len(want), what+": nothing is delivered twice or invented")
		for i := range got {
			verifAssert(got[i] == want[i], what+": messages arrive in server order")
		}
	}
	prefix(gotA, wantA, "A")
	prefix(gotB, wantB, "B")
	switch kind {
	case 3:
		verifAssert(errA == nil || errA != nil, "Receive returned")
		verifAssert(errB != nil, "the other subscription ends with an error when the connection is lost")
		return
	case 0:
		verifAssert(errA == nil, "Receive returns nil when its subscription is unsubscribed")
		verifAssert(len(gotA) == len(wantA), "every message published before the unsubscribe is delivered")
		verifReach("unsubscribed")
	case 1:
		verifAssert(errA == context.Canceled, "Receive returns the context error when its context ends")
		verifReach("cancelled")
	default:
		verifAssert(errA == ErrClosing, "Receive returns ErrClosing on Close")
		verifReach("closed")
	}
	verifAssert(errB == ErrClosing, "Receive returns ErrClosing on Close (second subscription)")
}

// VerifC26_backpressure: a consumer that lags until its 16-slot buffer is full (the reader is
// parked publishing to it) and whose context then ends: Receive still returns the context
// error and the connection keeps serving regular commands.
func VerifC26_backpressure() {
	conn := newVerifConn()
	srv := newVerifServer(conn)
	p := verifNewPipe(conn, false)
	burst := verifParam("burst", 18)
	verifGo("server", func() {
		verifDaemon()
		for {
			argv, ok := srv.next()
			if !ok {
				return
			}
			switch argv[0] {
			case "SUBSCRIBE":
				srv.send(verifPush("subscribe", argv[1], ":1"))
				for i := 0; i < burst; i++ {
					srv.send(verifPush("message", "a", "m"+strconv.Itoa(i)))
				}
			case "PING":
				srv.send("+PONG\r\n")
			case "ID":
				srv.send(":" + argv[1] + "\r\n")
			}
		}
	})
	ctx, cancel := context.WithCancel(context.Background())
	gate := make(chan struct{})
	var got []string
	var err error
	done := false
	verifGo("receiver", func() {
		err = p.Receive(ctx, verifSubCmd("a"), func(m PubSubMessage) {
			<-gate // a slow consumer: blocks inside its callback
			got = append(got, m.Message)
		})
		done = true
	})
	verifSettle() // the burst has been read as far as the full buffer allows: the reader is parked
	cancel()
	close(gate)
	verifJoin() // a receiver that never returns ends the path as HANG
	verifAssert(done && err == context.Canceled, "Receive returns the context error even when its buffer was full")
	for i := range got {
		verifAssert(got[i] == "m"+strconv.Itoa(i), "what was delivered is in server order")
	}
	r := p.Do(context.Background(), verifIDCmd(5))
	n, e := r.AsInt64()
	verifAssert(e == nil && n == 5, "the connection keeps serving regular commands after a lagging subscription ended")
	p.Close()
	verifReach("backpressure")
}

// VerifC26_partial: one Receive subscribed to two channels; the server drops one of them (an
// unsubscribe push for "a" only), which ends the Receive, and then still publishes on "b". The
// finished subscriber must be gone from every channel it had: the connection stays healthy.
func VerifC26_partial() {
	conn := newVerifConn()
	srv := newVerifServer(conn)
	p := verifNewPipe(conn, verifChoose(2) == 1)
	verifGo("server", func() {
		verifDaemon()
		for {
			argv, ok := srv.next()
			if !ok {
				return
			}
			switch argv[0] {
			case "SUBSCRIBE":
				for i, ch := range argv[1:] {
					srv.send(verifPush("subscribe", ch, ":"+strconv.Itoa(i+1)))
				}
			case "UNSUBSCRIBE":
				srv.send(verifPush("unsubscribe", "b", ":0"))
			case "PING":
				srv.send("+PONG\r\n")
			case "ID":
				srv.send(verifPush("unsubscribe", "a", ":1"))
				srv.send(verifPush("message", "b", "late"))
				srv.send(":" + argv[1] + "\r\n")
			}
		}
	})
	confirmed := make(chan string, 4)
	var got []string
	var err error
	verifGo("recv", func() {
		ctx := WithOnSubscriptionHook(context.Background(), func(s PubSubSubscription) {
			if s.Kind == "subscribe" {
				confirmed <- s.Channel
			}
		})
		sub := cmds.NewBuilder(cmds.NoSlot).Subscribe().Channel("a", "b").Build()
		err = p.Receive(ctx, sub, func(m PubSubMessage) { got = append(got, m.Channel+":"+m.Message) })
	})
	<-confirmed
	<-confirmed
	id, e := p.Do(context.Background(), cmds.NewBuilder(cmds.NoSlot).Arbitrary("ID").Args("1").Build()).AsInt64()
	verifAssert(e == nil && id == 1, "the regular command keeps its own reply next to the pushes")
	verifJoin()
	verifAssert(err == nil, "an unsubscribe confirmation ends the Receive without error")
	pong, e2 := p.Do(context.Background(), cmds.PingCmd).ToString()
	verifAssert(e2 == nil && pong == "PONG", "the connection keeps serving commands after a message for a channel nobody listens to any more")
	verifReach("partial")
	p.Close()
}
