#!/bin/sh
# builds bin/symgo offline
set -e
cd "$(dirname "$0")/engine"
export PATH=/opt/veriftools/go1.26.8/bin:$PATH GOFLAGS=-mod=mod GOPROXY=off GOSUMDB=off GOTOOLCHAIN=local GOWORK=off
mkdir -p ../bin
go build -o ../bin/symgo .
