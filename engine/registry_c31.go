package main

func init() {
	checks["C31"] = &checkDef{
		Level:       levelOther,
		Explanation: "Real MGet, MGetCache, JsonMGet, JsonMGetCache, MSet, MSetNX, MDel, JsonMSet (helper.go: clientMGet/clientMSet/clientMDel/clientJSONMSet, clusterMGet/clusterJsonMGet per-slot grouping, doMultiCache, doMultiSet, arrayToKV) on (a) a real singleClient over a stub connection and (b) the generic batching path taken for cluster clients (a stub Client with a cluster builder, so keys are grouped per slot with the real cmds.Slot). 1..3 keys drawn from a menu with duplicates and same-slot ({t}1,{t}2) / different-slot pairs; the server's value of every key is a symbolic byte string, one key is missing, per-key writes to one key fail. The cluster-path server refuses a multi-key read whose keys hash to different slots (CROSSSLOT), as a cluster node does. Oracle: the result's key set equals the input key set, each key maps to the server's reply (or nil, or error) for exactly that key — compared on symbolic values, so any positional mix-up yields a satisfiable difference —, a single multi-key command reports its one outcome for every key, and every key reaches the server.",
		Assumptions: []string{"an honest server: one array element per requested key", "map iteration order as the engine's insertion order (MSet-style helpers iterate over the caller's map)"},
		Outside:     []string{"standalone and sentinel clients (same code path as singleClient in the helpers' type switch)", "more than 3 keys; short or malformed arrays from the server"},
		Bounds:      map[string]any{"quick": "1..3 keys from a 5-key menu × 8 helpers × 2 client kinds; MGet/JsonMGet per-slot grouping on the cluster path with every list of 4 keys", "thorough": "1..4 keys; grouping with every list of 5 keys"},
		specs: func(tier string) []specRef {
			return []specRef{hsx(rootPkg, "VerifC31_helpers", P{"max_keys": q(tier, int64(3), 4)}, 3000000, 3000, "single", "generic"),
				hsx(rootPkg, "VerifC31_grouping", P{"max_keys": q(tier, int64(4), 5)}, 3000000, 3000, "generic"),
				// MGetCache/JsonMGetCache ride on DoMultiCache: the real pipe + lru batch path with duplicates (shared with C11)
				hsd(rootPkg, "VerifC11_batch", P{"max_keys": q(tier, int64(3), 4)}, 0, 3000000, 3000, "mget", "multicache")}
		},
	}
}
