package main

// Exploration: a work-list of decision prefixes, re-executed from scratch by a pool of workers
// (one solver process each). Every path ends in exactly one outcome.

import (
	"fmt"
	"os"
	"path/filepath"
	"regexp"
	"runtime/debug"
	"sort"
	"strings"
	"sync"
	"time"

	"golang.org/x/tools/go/ssa"
)

func hostStack() string {
	s := string(debug.Stack())
	lines := strings.Split(s, "\n")
	if len(lines) > 40 {
		lines = lines[:40]
	}
	return strings.Join(lines, "\n")
}

type worker struct {
	id              int
	p               *program
	solver          *solver
	decisionQueries int
	intrinsicsUsed  map[string]int
	sharedGlobals   map[*ssa.Global]*object
	sharedInit      map[*ssa.Package]bool
}

type harnessSpec struct {
	Name     string           // entry function name in the package
	Pkg      string           // import path of the package under test
	Params   map[string]int64 // verifParam values
	MaxPaths int
	MaxSteps int
	MaxDecisions int
	Preemptions int
	SchedKinds []string
	TimersEager bool
	Witnesses []string // verifReach labels that must be reached on some path
	TimeoutS int
	SymAllocLimit int64
	Overrides map[string]string // function full name -> harness function name (same package)
	Gen string // "builders": generate the builder harness from the package types before loading
	ExpectViolation bool // reachability twin: the harness must be violated (vacuity guard)
}

type violationRec struct {
	Msg     string            `json:"msg"`
	Stack   string            `json:"stack"`
	Model   map[string]uint64 `json:"model"`
	Vector  []vecItem         `json:"vector"`
	Trace   []int             `json:"decisions"`
	Vals    []uint64          `json:"decision_vals,omitempty"`
	Kinds   []string          `json:"decision_kinds,omitempty"`
	Schedule []int            `json:"schedule,omitempty"`
	Events  []string          `json:"events,omitempty"`
	Harness string            `json:"harness"`
	Sig     string            `json:"signature"`
	Confirmed string          `json:"final_check"`
	spec      *harnessSpec
}

// vecItem: one nondet call's concrete value(s) for native replay.
type vecItem struct {
	Key  string  `json:"key,omitempty"` // lazy-cell key ("" = main flow)
	Kind string  `json:"kind"`
	Ints []int64 `json:"ints"`
}

type pathResult struct {
	out       outcome
	msg       string
	newJobs   [][]choiceRec
	steps     int
	decisions int
	asserts   int
	symAsserts int
	unknownQ  int
	havocs    int
	reached   map[string]bool
	funcs     map[*ssa.Function]int
	overrides map[string]int
	viol      *violationRec
	sample    []vecItem
	events    []string
	nvars     int
}

type exploreResult struct {
	spec        *harnessSpec
	paths       int
	byOutcome   map[outcome]int
	decisions   int
	steps       int
	maxSteps    int
	asserts     int
	symAsserts  int
	unknownQ    int
	havocs      int
	reached     map[string]bool
	funcs       map[string]int
	overrides   map[string]int
	intrinsics  map[string]int
	violations  []*violationRec
	incomplete  []string // messages of bound/unsupported/unknown paths (deduplicated)
	samples     [][]vecItem
	sampleEvents [][]string
	solverQueries int
	solverTime  time.Duration
	diffSampled, diffAgreed, diffOther, diffBad int
	wall        time.Duration
	truncated   bool // path budget or timeout exhausted with work left
	distinctSigs map[string]bool
}

func (w *worker) runPath(spec *harnessSpec, cfg *runConfig, prefix []choiceRec) (res *pathResult) {
	m := &machine{
		p: w.p, wk: w, cfg: cfg, tf: newTermFactory(),
		prefix: prefix, globals: map[*ssa.Global]*object{},
		hostState: map[any]any{}, funcs: map[*ssa.Function]int{}, overridesHit: map[string]int{},
		reached: map[string]bool{}, now: virtualEpochNs, preemptLeft: cfg.preemptions,
		finishedCh: make(chan struct{}),
	}
	w.solver.push()
	defer w.solver.pop()
	pkg := w.p.pkgs[spec.Pkg]
	entry := pkg.Func(spec.Name)
	if entry == nil {
		return &pathResult{out: outUnsupported, msg: "harness entry not found: " + spec.Pkg + "." + spec.Name}
	}
	initFn := pkg.Func("init")
	mainBM := &boundMethod{name: "harnessMain", recv: []value{initFn, entry}}
	g := m.spawn(nil, mainBM, nil, "main")
	m.cur = g
	g.resume <- true
	<-m.finishedCh
	// kill every parked goroutine
	for _, og := range m.gors {
		select {
		case og.resume <- false:
			<-og.dead
		case <-og.dead:
		}
	}
	res = &pathResult{
		out: m.end.out, msg: m.end.msg, newJobs: m.newJobs, steps: m.steps, decisions: len(m.trace),
		asserts: m.asserts, symAsserts: m.symAsserts, unknownQ: m.unknownQ, havocs: m.havocs, reached: m.reached,
		funcs: m.funcs, overrides: m.overridesHit, events: m.events, nvars: len(m.vars),
	}
	if res.out == outViolation || (res.out == outOK && w.id == 0) {
		// obtain a model of the path condition
		r := w.solver.check()
		if res.out == outViolation {
			v := &violationRec{Msg: m.end.msg, Stack: m.endStack, Harness: spec.Name, Events: m.events, Schedule: m.schedule, Confirmed: r.String()}
			for _, d := range m.trace {
				v.Trace = append(v.Trace, d.choice)
				v.Vals = append(v.Vals, d.val)
				v.Kinds = append(v.Kinds, d.kind)
			}
			if r == resSat {
				v.Model = w.solver.values(m.vars)
				v.Vector = m.vector(v.Model)
			} else if len(m.vars) == 0 {
				v.Vector = m.vector(nil)
				v.Confirmed = "concrete"
			}
			if r == resUnsat {
				// cannot happen on a followed path unless an unknown was taken as feasible
				res.out = outInfeasible
			} else if r == resUnknown && len(m.vars) > 0 {
				res.out = outUnknown
				res.msg = "violation candidate but final check unknown: " + res.msg
			}
			v.Sig = violationSig(v)
			res.viol = v
		} else if r == resSat {
			res.sample = m.vector(w.solver.values(m.vars))
		}
	}
	return res
}

var objIDRe = regexp.MustCompile(`#[0-9]+`)

func violationSig(v *violationRec) string {
	// the failing site: message + innermost /repo frames
	st := v.Stack
	if i := strings.Index(st, " <- "); i >= 0 {
		j := strings.Index(st[i+4:], " <- ")
		if j >= 0 {
			st = st[:i+4+j]
		}
	}
	msg := objIDRe.ReplaceAllString(v.Msg, "#N") // object ids depend on what a worker initialised earlier
	st = objIDRe.ReplaceAllString(st, "#N")
	if len(msg) > 160 {
		msg = msg[:160]
	}
	return msg + " @ " + st
}

// vector evaluates the nondet log under a model.
func (m *machine) vector(model map[string]uint64) []vecItem {
	memo := map[*term]uint64{}
	var out []vecItem
	for _, r := range m.nondetLog {
		it := vecItem{Key: r.key, Kind: r.kind}
		if r.conc != nil {
			it.Ints = r.conc
		} else {
			for _, t := range r.terms {
				u := evalTerm(t, model, memo)
				w := t.w
				if w == 0 {
					w = 1
				}
				it.Ints = append(it.Ints, sext64(u, w))
			}
		}
		out = append(out, it)
	}
	return out
}

func (m *machine) runHarnessMain(fr *frame, rv []value) {
	if initFn, ok := rv[0].(*ssa.Function); ok && initFn != nil {
		m.callFn(m.cur, nil, initFn, nil, nil, nil)
	}
	saved := m.preemptLeft
	_ = saved
	m.callFn(m.cur, nil, rv[1].(*ssa.Function), nil, nil, nil)
}

func explore(p *program, spec *harnessSpec, nworkers int, seed int64) *exploreResult {
	t0 := time.Now()
	cfg := &runConfig{
		maxSteps: spec.MaxSteps, maxDecisions: spec.MaxDecisions, maxDepth: 400, maxConcretize: 600,
		symAllocLimit: spec.SymAllocLimit, preemptions: spec.Preemptions, timersEager: spec.TimersEager, params: spec.Params,
	}
	if cfg.maxSteps == 0 {
		cfg.maxSteps = 3_000_000
	}
	if cfg.maxDecisions == 0 {
		cfg.maxDecisions = 4000
	}
	if cfg.symAllocLimit == 0 {
		cfg.symAllocLimit = 1 << 20
	}
	if cfg.params == nil {
		cfg.params = map[string]int64{}
	}
	if len(spec.SchedKinds) > 0 {
		cfg.schedKinds = map[string]bool{}
		for _, k := range spec.SchedKinds {
			cfg.schedKinds[k] = true
		}
	}
	maxPaths := spec.MaxPaths
	if maxPaths == 0 {
		maxPaths = 200000
	}
	timeout := time.Duration(spec.TimeoutS) * time.Second
	if timeout == 0 {
		timeout = 10 * time.Minute
	}
	res := &exploreResult{spec: spec, byOutcome: map[outcome]int{}, reached: map[string]bool{}, funcs: map[string]int{},
		overrides: map[string]int{}, intrinsics: map[string]int{}, distinctSigs: map[string]bool{}}

	var mu sync.Mutex
	cond := sync.NewCond(&mu)
	jobs := [][]choiceRec{nil}
	active := 0
	started := 0
	stop := false
	incSet := map[string]bool{}

	var wg sync.WaitGroup
	workers := make([]*worker, nworkers)
	for i := 0; i < nworkers; i++ {
		s, err := newSolver(mainSolverKind(), 30000)
		if err != nil {
			panic(err)
		}
		s.diffEvery, s.diffMax = diffSampling()
		workers[i] = &worker{id: i, p: p, solver: s, intrinsicsUsed: map[string]int{}, sharedGlobals: map[*ssa.Global]*object{}, sharedInit: map[*ssa.Package]bool{}}
	}
	for i := 0; i < nworkers; i++ {
		wg.Add(1)
		go func(w *worker) {
			defer wg.Done()
			for {
				mu.Lock()
				for len(jobs) == 0 && active > 0 && !stop {
					cond.Wait()
				}
				if stop || (len(jobs) == 0 && active == 0) {
					mu.Unlock()
					cond.Broadcast()
					return
				}
				if started >= maxPaths || time.Since(t0) > timeout {
					res.truncated = true
					stop = true
					mu.Unlock()
					cond.Broadcast()
					return
				}
				j := jobs[len(jobs)-1]
				jobs = jobs[:len(jobs)-1]
				active++
				started++
				mu.Unlock()

				r := w.runPath(spec, cfg, j)

				mu.Lock()
				active--
				jobs = append(jobs, r.newJobs...)
				res.paths++
				res.byOutcome[r.out]++
				res.decisions += r.decisions
				res.steps += r.steps
				if r.steps > res.maxSteps {
					res.maxSteps = r.steps
				}
				res.asserts += r.asserts
				res.symAsserts += r.symAsserts
				res.unknownQ += r.unknownQ
				res.havocs += r.havocs
				for k := range r.reached {
					res.reached[k] = true
				}
				for f, n := range r.funcs {
					res.funcs[f.String()] += n
				}
				for f, n := range r.overrides {
					res.overrides[f] += n
				}
				switch r.out {
				case outViolation:
					if !res.distinctSigs[r.viol.Sig] || len(res.violations) < 3 {
						if len(res.violations) < 40 {
							res.violations = append(res.violations, r.viol)
						}
					}
					res.distinctSigs[r.viol.Sig] = true
				case outBound, outUnsupported, outUnknown:
					key := r.out.String() + ": " + r.msg
					if !incSet[key] && len(res.incomplete) < 30 {
						incSet[key] = true
						res.incomplete = append(res.incomplete, key)
					}
				case outOK:
					if r.sample != nil && len(res.samples) < 3 {
						res.samples = append(res.samples, r.sample)
						res.sampleEvents = append(res.sampleEvents, r.events)
					}
				}
				mu.Unlock()
				cond.Broadcast()
			}
		}(workers[i])
	}
	wg.Wait()
	for _, w := range workers {
		res.solverQueries += w.solver.queries
		res.solverTime += w.solver.time
		for k, n := range w.intrinsicsUsed {
			res.intrinsics[k] += n
		}
		if w.solver.errors > 0 {
			res.incomplete = append(res.incomplete, fmt.Sprintf("solver reported %d error line(s)", w.solver.errors))
		}
		res.diffSampled += w.solver.diffSampled
		res.diffAgreed += w.solver.diffAgreed
		res.diffOther += w.solver.diffOther
		if w.solver.diffBad > 0 {
			res.diffBad += w.solver.diffBad
			res.incomplete = append(res.incomplete, fmt.Sprintf("solver disagreement: %d sampled queries decided differently by the second solver", w.solver.diffBad))
			_ = os.WriteFile(filepath.Join(os.TempDir(), "symgo_disagreement_"+spec.Name+".smt2"), []byte(w.solver.diffBadScript), 0o644)
		}
		w.solver.close()
	}
	if len(jobs) > 0 {
		res.truncated = true
	}
	res.wall = time.Since(t0)
	sort.Strings(res.incomplete)
	return res
}

// exploreFixed re-executes exactly one recorded decision vector (engine replay).
func exploreFixed(p *program, spec *harnessSpec, v *violationRec) *pathResult {
	cfg := &runConfig{maxSteps: 50_000_000, maxDecisions: 100000, maxDepth: 400, maxConcretize: 600,
		symAllocLimit: spec.SymAllocLimit, preemptions: spec.Preemptions, timersEager: spec.TimersEager, params: spec.Params}
	if cfg.symAllocLimit == 0 {
		cfg.symAllocLimit = 1 << 20
	}
	if cfg.params == nil {
		cfg.params = map[string]int64{}
	}
	if len(spec.SchedKinds) > 0 {
		cfg.schedKinds = map[string]bool{}
		for _, k := range spec.SchedKinds {
			cfg.schedKinds[k] = true
		}
	}
	s, err := newSolver(mainSolverKind(), 30000)
	if err != nil {
		return nil
	}
	defer s.close()
	w := &worker{id: 1, p: p, solver: s, intrinsicsUsed: map[string]int{}, sharedGlobals: map[*ssa.Global]*object{}, sharedInit: map[*ssa.Package]bool{}}
	prefix := make([]choiceRec, len(v.Trace))
	for i, c := range v.Trace {
		prefix[i].c = c
		if i < len(v.Vals) {
			prefix[i].v = v.Vals[i]
		}
	}
	return w.runPath(spec, cfg, prefix)
}

// diffSampling: every n-th decided solver query of a worker is re-checked by a second solver,
// at most max per worker (SYMGO_DIFF=n[,max]; default 1 in 400, at most 8 per worker; 0 = off).
func diffSampling() (every, max int) {
	every, max = 400, 8
	if v := os.Getenv("SYMGO_DIFF"); v != "" {
		a, b, _ := strings.Cut(v, ",")
		fmt.Sscan(a, &every)
		if b != "" {
			fmt.Sscan(b, &max)
		}
	}
	return
}
