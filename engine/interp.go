package main

// The SSA interpreter proper: frames, instructions, calls, defer/panic/recover.
// Structure follows golang.org/x/tools/go/ssa/interp, with a different value model
// (value.go), symbolic scalars (ops.go) and a controlled scheduler (sched.go).

import (
	"fmt"
	"go/constant"
	"go/token"
	"go/types"
	"strings"
	"sync"

	"golang.org/x/tools/go/ssa"
)

type funcInfo struct {
	slot   map[ssa.Value]int
	nslots int
	consts map[*ssa.Const]value
	intr   intrinsicFn
	hasIn  bool
	name   string
}

type program struct {
	prog   *ssa.Program
	pkgs   map[string]*ssa.Package // by path
	finfo  sync.Map                // *ssa.Function -> *funcInfo
	initMu sync.Mutex
	// overrides: function full name -> replacement function (harness-provided)
	overrides map[string]*ssa.Function
}

func (p *program) info(fn *ssa.Function) *funcInfo {
	if v, ok := p.finfo.Load(fn); ok {
		return v.(*funcInfo)
	}
	fi := &funcInfo{slot: map[ssa.Value]int{}, consts: map[*ssa.Const]value{}, name: fn.String()}
	n := 0
	for _, p := range fn.Params {
		fi.slot[p] = n
		n++
	}
	for _, fv := range fn.FreeVars {
		fi.slot[fv] = n
		n++
	}
	for _, b := range fn.Blocks {
		for _, ins := range b.Instrs {
			if v, ok := ins.(ssa.Value); ok {
				fi.slot[v] = n
				n++
			}
		}
	}
	fi.nslots = n
	if in, ok := lookupIntrinsic(fn); ok {
		fi.intr = in
		fi.hasIn = true
	}
	v, _ := p.finfo.LoadOrStore(fn, fi)
	return v.(*funcInfo)
}

type deferred struct {
	fn    value
	args  []value
	instr *ssa.Defer
}

type frame struct {
	m        *machine
	g        *gor
	caller   *frame
	fn       *ssa.Function
	fi       *funcInfo
	env      []value
	block    *ssa.BasicBlock
	prev     *ssa.BasicBlock
	defers   []*deferred
	result   value
	panicking bool
	panicVal *targetPanic
	callSite ssa.Instruction
}

// targetPanic is a Go panic inside the interpreted program.
type targetPanic struct {
	v     value // the panic value (an iface)
	msg   string
	stack string
}

type killSignal struct{}

func (fr *frame) get(v ssa.Value) value {
	if i, ok := fr.fi.slot[v]; ok {
		return fr.env[i]
	}
	switch v := v.(type) {
	case *ssa.Const:
		fr.m.p.initMu.Lock()
		c, ok := fr.fi.consts[v]
		fr.m.p.initMu.Unlock()
		if ok {
			return c
		}
		c = constValue(v)
		fr.m.p.initMu.Lock()
		fr.fi.consts[v] = c
		fr.m.p.initMu.Unlock()
		return c
	case *ssa.Global:
		o := fr.m.global(v)
		return ptr{o: o, c: &o.v}
	case *ssa.Function:
		return v
	case *ssa.Builtin:
		return v
	}
	panic(fmt.Sprintf("get: no value for %T %v in %s", v, v.Name(), fr.fn))
}

func (fr *frame) set(v ssa.Value, x value) {
	fr.env[fr.fi.slot[v]] = x
}

func constValue(c *ssa.Const) value {
	if c.Value == nil {
		return zero(c.Type())
	}
	t := c.Type().Underlying()
	if tp, ok := c.Type().(*types.TypeParam); ok {
		_ = tp
		panic(unsupported("const of type parameter"))
	}
	if b, ok := t.(*types.Basic); ok {
		switch {
		case b.Info()&types.IsBoolean != 0:
			return constant.BoolVal(c.Value)
		case b.Info()&types.IsInteger != 0:
			w, signed := widthOf(b)
			if signed {
				i, _ := constant.Int64Val(constant.ToInt(c.Value))
				return canon(uint64(i), w, true)
			}
			u, _ := constant.Uint64Val(constant.ToInt(c.Value))
			return canon(u, w, false)
		case b.Info()&types.IsFloat != 0:
			f, _ := constant.Float64Val(c.Value)
			if b.Kind() == types.Float32 {
				return float64(float32(f))
			}
			return f
		case b.Info()&types.IsComplex != 0:
			re, _ := constant.Float64Val(constant.Real(c.Value))
			im, _ := constant.Float64Val(constant.Imag(c.Value))
			return complex(re, im)
		case b.Info()&types.IsString != 0:
			if c.Value.Kind() == constant.String {
				return constant.StringVal(c.Value)
			}
			i, _ := constant.Int64Val(c.Value)
			return string(rune(i))
		}
	}
	panic(fmt.Sprintf("constValue: %v : %v", c, c.Type()))
}

// ---- calls ----

func (m *machine) callValue(g *gor, caller *frame, fv value, args []value, site ssa.Instruction) value {
	switch f := fv.(type) {
	case *ssa.Function:
		if f == nil {
			m.goPanic(caller, "invalid memory address or nil pointer dereference (nil func)")
		}
		return m.callFn(g, caller, f, args, nil, site)
	case *closure:
		return m.callFn(g, caller, f.fn, args, f.env, site)
	case *ssa.Builtin:
		return m.callBuiltin(caller, f, args, site)
	case *boundMethod:
		return m.callHostMethod(caller, f, args)
	case iface:
		if f.t == nil {
			m.goPanic(caller, "invalid memory address or nil pointer dereference (nil func)")
		}
	}
	panic(fmt.Sprintf("callValue: cannot call %T", fv))
}

func (m *machine) callFn(g *gor, caller *frame, fn *ssa.Function, args []value, env []value, site ssa.Instruction) value {
	if ov, ok := m.p.overrides[fn.String()]; ok && (caller == nil || caller.fn != ov) {
		m.noteOverride(fn.String())
		fn = ov
	}
	fi := m.p.info(fn)
	if fi.hasIn {
		fr := caller
		r, handled := fi.intr(m, fr, fn, args)
		if handled {
			return r
		}
	}
	if fn.Synthetic == "package initializer" {
		if !allowInit(fn.Pkg.Pkg.Path()) {
			m.noteOverride("package initialiser not executed: " + fn.Pkg.Pkg.Path())
			return nil
		}
		if sharedPkg(fn.Pkg) {
			if m.wk.sharedInit[fn.Pkg] {
				return nil
			}
			done := false
			defer func() {
				if !done { // aborted mid-way: forget everything shared, the next path starts over
					m.wk.sharedGlobals = map[*ssa.Global]*object{}
					m.wk.sharedInit = map[*ssa.Package]bool{}
				}
			}()
			defer func() { m.wk.sharedInit[fn.Pkg] = done }()
			r := m.callFnBody(g, caller, fn, args, env, site)
			done = true
			return r
		}
	}
	return m.callFnBody(g, caller, fn, args, env, site)
}

func (m *machine) callFnBody(g *gor, caller *frame, fn *ssa.Function, args []value, env []value, site ssa.Instruction) value {
	fi := m.p.info(fn)
	if fn.Blocks == nil {
		if fn.Synthetic != "" && strings.Contains(fn.Synthetic, "generic") {
			panic(unsupported("uninstantiated generic " + fn.String()))
		}
		panic(unsupported("no body: " + fn.String()))
	}
	m.noteFunc(fn)
	fr := &frame{m: m, g: g, caller: caller, fn: fn, fi: fi, callSite: site}
	fr.env = make([]value, fi.nslots)
	for i, p := range fn.Params {
		fr.env[fi.slot[p]] = args[i]
	}
	for i, fv := range fn.FreeVars {
		fr.env[fi.slot[fv]] = env[i]
	}
	g.depth++
	if g.depth > m.cfg.maxDepth {
		m.abort(outBound, "call depth exceeded in "+fn.String())
	}
	fr.block = fn.Blocks[0]
	for fr.block != nil {
		fr.runWithRecover()
	}
	g.depth--
	return fr.result
}

// runWithRecover executes blocks until return, converting targetPanic into Go's
// defer/recover protocol for this frame.
func (fr *frame) runWithRecover() {
	defer func() {
		if fr.block == nil {
			return // normal return
		}
		r := recover()
		if r == nil {
			return
		}
		tp, ok := r.(*targetPanic)
		if !ok {
			panic(r) // engine-level abort (pathEnd, kill): propagate without running defers
		}
		fr.panicking = true
		fr.panicVal = tp
		fr.runDefers()
		// runDefers returned: either recovered (panicking=false) or re-panic
		if fr.panicking {
			panic(fr.panicVal)
		}
		// recovered: continue at Recover block, or return zero results
		if fr.fn.Recover != nil {
			fr.block = fr.fn.Recover
		} else {
			fr.block = nil
			fr.result = zeroResults(fr.fn)
		}
		fr.g.depth = fr.depthAt()
	}()
	fr.run()
}

func (fr *frame) depthAt() int {
	d := 0
	for f := fr; f != nil; f = f.caller {
		d++
	}
	return d
}

func zeroResults(fn *ssa.Function) value {
	res := fn.Signature.Results()
	switch res.Len() {
	case 0:
		return nil
	case 1:
		return zero(res.At(0).Type())
	}
	return zero(res)
}

func (fr *frame) runDefers() {
	for len(fr.defers) > 0 {
		d := fr.defers[len(fr.defers)-1]
		fr.defers = fr.defers[:len(fr.defers)-1]
		fr.runDefer(d)
	}
}

func (fr *frame) runDefer(d *deferred) {
	defer func() {
		r := recover()
		if r == nil {
			return
		}
		if tp, ok := r.(*targetPanic); ok {
			// a deferred call panicked: replaces the current panic
			fr.panicking = true
			fr.panicVal = tp
			return
		}
		panic(r)
	}()
	fr.m.callValue(fr.g, fr, d.fn, d.args, d.instr)
}

func (fr *frame) run() {
	m := fr.m
	for {
		b := fr.block
		instrs := b.Instrs
		start := 0
		// phis are evaluated in parallel
		if _, ok := instrs[0].(*ssa.Phi); ok {
			var vals [8]value
			tmp := vals[:0]
			for _, ins := range instrs {
				phi, ok := ins.(*ssa.Phi)
				if !ok {
					break
				}
				var v value
				for i, pred := range b.Preds {
					if fr.prev == pred {
						v = fr.get(phi.Edges[i])
						break
					}
				}
				tmp = append(tmp, v)
			}
			for i, v := range tmp {
				fr.set(instrs[i].(*ssa.Phi), v)
			}
			start = len(tmp)
		}
		jumped := false
		for i := start; i < len(instrs); i++ {
			m.steps++
			if stepProf != nil {
				stepProf[fr.fn.String()]++
			}
			fr.g.top, fr.g.cur = fr, instrs[i]
			if m.steps > m.cfg.maxSteps {
				m.abort(outBound, "step bound exceeded")
			}
			switch fr.exec(instrs[i]) {
			case kReturn:
				fr.block = nil
				return
			case kJump:
				i = len(instrs)
				jumped = true
			}
		}
		if !jumped {
			panic("block fell through: " + fr.fn.String())
		}
	}
}

var stepProf map[string]int

var stdSizes = &types.StdSizes{WordSize: 8, MaxAlign: 8}

type cont int

const (
	kNext cont = iota
	kReturn
	kJump
)

func (fr *frame) exec(instr ssa.Instruction) cont {
	m := fr.m
	switch instr := instr.(type) {
	case *ssa.DebugRef:
	case *ssa.UnOp:
		fr.set(instr, m.unop(fr, instr))
	case *ssa.BinOp:
		fr.set(instr, m.binop(fr, instr.Op, instr.X.Type(), fr.get(instr.X), fr.get(instr.Y), instr.Y.Type()))
	case *ssa.Call:
		fn, args := fr.prepareCall(&instr.Call)
		fr.set(instr, m.callValue(fr.g, fr, fn, args, instr))
	case *ssa.ChangeInterface:
		fr.set(instr, fr.get(instr.X))
	case *ssa.ChangeType:
		fr.set(instr, fr.get(instr.X))
	case *ssa.Convert:
		fr.set(instr, m.conv(fr, instr.Type(), instr.X.Type(), fr.get(instr.X)))
	case *ssa.MultiConvert:
		fr.set(instr, m.conv(fr, instr.Type(), instr.X.Type(), fr.get(instr.X)))
	case *ssa.SliceToArrayPointer:
		fr.set(instr, m.sliceToArrayPointer(fr, instr.Type(), fr.get(instr.X)))
	case *ssa.MakeInterface:
		fr.set(instr, iface{t: instr.X.Type(), v: fr.get(instr.X)})
	case *ssa.Extract:
		fr.set(instr, fr.get(instr.Tuple).(tuple)[instr.Index])
	case *ssa.Slice:
		fr.set(instr, m.sliceOp(fr, instr))
	case *ssa.Return:
		switch len(instr.Results) {
		case 0:
		case 1:
			fr.result = fr.get(instr.Results[0])
		default:
			res := make(tuple, len(instr.Results))
			for i, r := range instr.Results {
				res[i] = fr.get(r)
			}
			fr.result = res
		}
		return kReturn
	case *ssa.RunDefers:
		fr.runDefers()
		if fr.panicking {
			panic(fr.panicVal)
		}
	case *ssa.Panic:
		v := fr.get(instr.X)
		panic(&targetPanic{v: v, msg: m.panicString(v), stack: fr.stackString()})
	case *ssa.Send:
		m.chanSend(fr, fr.get(instr.Chan), fr.get(instr.X))
	case *ssa.Store:
		m.store(fr, fr.get(instr.Addr), fr.get(instr.Val))
	case *ssa.If:
		c := fr.get(instr.Cond)
		var taken bool
		switch c := c.(type) {
		case bool:
			taken = c
		case *sym:
			taken = m.decideBool(c.t, "if")
		default:
			panic(fmt.Sprintf("if: bad cond %T", c))
		}
		succ := 1
		if taken {
			succ = 0
		}
		fr.prev, fr.block = fr.block, fr.block.Succs[succ]
		return kJump
	case *ssa.Jump:
		fr.prev, fr.block = fr.block, fr.block.Succs[0]
		return kJump
	case *ssa.Defer:
		fn, args := fr.prepareCall(&instr.Call)
		if instr.DeferStack != nil {
			panic(unsupported("defer with explicit stack (range-over-func)"))
		}
		fr.defers = append(fr.defers, &deferred{fn: fn, args: args, instr: instr})
	case *ssa.Go:
		fn, args := fr.prepareCall(&instr.Call)
		m.spawn(fr, fn, args, "")
	case *ssa.MakeChan:
		n := m.concInt(fr.get(instr.Size), "makechan size")
		fr.set(instr, m.newChan(int(n), instr.Type().Underlying().(*types.Chan).Elem()))
	case *ssa.Alloc:
		t := instr.Type().Underlying().(*types.Pointer).Elem()
		if instr.Heap {
			o := m.newObject(zero(t), "alloc")
			fr.set(instr, ptr{o: o, c: &o.v})
		} else {
			// stack slot: reuse across loop iterations by zeroing
			cur := fr.env[fr.fi.slot[instr]]
			if p, ok := cur.(ptr); ok && p.c != nil {
				*p.c = zero(t)
			} else {
				o := m.newObject(zero(t), "local")
				fr.set(instr, ptr{o: o, c: &o.v})
			}
		}
	case *ssa.MakeSlice:
		et := instr.Type().Underlying().(*types.Slice).Elem()
		esz := stdSizes.Sizeof(et)
		n := m.concLenSz(fr, fr.get(instr.Len), "makeslice: len out of range", esz)
		c := m.concLenSz(fr, fr.get(instr.Cap), "makeslice: cap out of range", esz)
		if n > c {
			m.goPanic(fr, "makeslice: len out of range")
		}
		m.noteAlloc(fr, int(c), et)
		fr.set(instr, m.makeSlice(et, int(n), int(c)))
	case *ssa.MakeMap:
		fr.set(instr, m.newMap(instr.Type().Underlying().(*types.Map)))
	case *ssa.Range:
		fr.set(instr, m.rangeIter(fr, fr.get(instr.X), instr.X.Type()))
	case *ssa.Next:
		fr.set(instr, fr.get(instr.Iter).(iterator).next(m, fr))
	case *ssa.FieldAddr:
		p := fr.get(instr.X).(ptr)
		if p.isNil() {
			m.goPanic(fr, "invalid memory address or nil pointer dereference")
		}
		p = m.concPtr(fr, p)
		m.force(fr, p.c)
		st := (*p.c).(structure)
		fr.set(instr, ptr{o: p.o, c: &st[instr.Field]})
	case *ssa.Field:
		fr.set(instr, copyVal(fr.get(instr.X).(structure)[instr.Field]))
	case *ssa.IndexAddr:
		fr.set(instr, m.indexAddr(fr, instr))
	case *ssa.Index:
		fr.set(instr, m.indexOp(fr, instr))
	case *ssa.Lookup:
		fr.set(instr, m.lookup(fr, instr))
	case *ssa.MapUpdate:
		mv := fr.get(instr.Map).(*mapobj)
		if mv == nil {
			m.goPanic(fr, "assignment to entry in nil map")
		}
		m.mapSet(fr, mv, fr.get(instr.Key), fr.get(instr.Value))
	case *ssa.TypeAssert:
		fr.set(instr, m.typeAssert(fr, instr, fr.get(instr.X).(iface)))
	case *ssa.MakeClosure:
		var bindings []value
		for _, b := range instr.Bindings {
			bindings = append(bindings, fr.get(b))
		}
		fr.set(instr, &closure{fn: instr.Fn.(*ssa.Function), env: bindings})
	case *ssa.Phi:
		panic("phi not at block head")
	case *ssa.Select:
		fr.set(instr, m.selectOp(fr, instr))
	default:
		panic(fmt.Sprintf("unexpected instruction: %T", instr))
	}
	return kNext
}

func (fr *frame) prepareCall(call *ssa.CallCommon) (value, []value) {
	m := fr.m
	v := fr.get(call.Value)
	var args []value
	var fn value
	if call.Method == nil {
		fn = v
	} else {
		recv := v.(iface)
		if recv.t == nil {
			m.goPanic(fr, "invalid memory address or nil pointer dereference (method call on nil interface)")
		}
		if h, ok := recv.v.(*hostObj); ok {
			fn = &boundMethod{name: h.kind + "." + call.Method.Name(), recv: h}
		} else {
			f := m.p.prog.LookupMethod(recv.t, call.Method.Pkg(), call.Method.Name())
			if f == nil {
				panic(fmt.Sprintf("method lookup failed: %v.%s", recv.t, call.Method.Name()))
			}
			fn = f
			args = append(args, recv.v)
		}
	}
	for _, a := range call.Args {
		args = append(args, copyVal(fr.get(a)))
	}
	return fn, args
}

func (fr *frame) stackString() string {
	var sb strings.Builder
	n := 0
	for f := fr; f != nil && n < 12; f = f.caller {
		sb.WriteString(f.fn.String())
		if f.callSite != nil {
			if p := f.m.p.prog.Fset.Position(f.callSite.Pos()); p.IsValid() {
				fmt.Fprintf(&sb, " (called at %s:%d)", shortFile(p.Filename), p.Line)
			}
		}
		sb.WriteString(" <- ")
		n++
	}
	return sb.String()
}

func shortFile(f string) string {
	if i := strings.LastIndex(f, "/"); i >= 0 {
		return f[i+1:]
	}
	return f
}

func (m *machine) posOf(fr *frame, pos token.Pos) string {
	p := m.p.prog.Fset.Position(pos)
	if !p.IsValid() {
		return fr.fn.String()
	}
	return fmt.Sprintf("%s:%d", shortFile(p.Filename), p.Line)
}

// goPanic raises a Go run-time panic in the interpreted program.
func (m *machine) goPanic(fr *frame, msg string) {
	st := ""
	if fr != nil {
		st = fr.stackString()
	}
	panic(&targetPanic{v: iface{t: runtimeErrorType, v: "runtime error: " + msg}, msg: "runtime error: " + msg, stack: st})
}

// runtimeErrorType stands for runtime.Error values; it is a named string type created once.
var runtimeErrorType = types.NewNamed(types.NewTypeName(token.NoPos, nil, "runtimeError", nil), types.Typ[types.String], nil)

func (m *machine) panicString(v value) string {
	if i, ok := v.(iface); ok {
		if i.t == nil {
			return "panic(nil)"
		}
		switch x := i.v.(type) {
		case string:
			return x
		case *sstr:
			return "<symbolic string>"
		case int64:
			return fmt.Sprint(x)
		}
		// error values: try Error()
		if s, ok := m.tryErrorString(i); ok {
			return s
		}
		return fmt.Sprintf("%v", i.t)
	}
	return fmt.Sprintf("%T", v)
}
