package main

func init() {
	checks["C25"] = &checkDef{
		Level:       levelOther,
		Explanation: "Real singleClient.Dedicated / Dedicate, dedicatedSingleClient (Do, DoMulti, Receive, SetPubSubHooks, SetOnInvalidations, release, check), real mux (Do routing to the shared pipeline vs. the blocking pool, Acquire, Store) and real pool over stub wires that log the commands they receive. A session issues WATCH, MULTI/INCR/EXEC and optionally installs an invalidation callback while, in the middle of it, other callers issue a shared-pipeline GET and a blocking BLPOP through the same client; the session is run through Dedicated(fn) or Dedicate()+release (optionally released twice). Oracle: the dedicated connection's log is exactly the session's commands in order (plus CLIENT TRACKING OFF at release iff an invalidation callback was installed) — no other caller's command on it; the other callers' commands use other connections; on release the hooks are reset, subscriptions cleaned, tracking switched off before the connection is stored, and the connection is back in the pool exactly once; afterwards every method returns ErrDedicatedClientRecycled (or a channel carrying it) and nothing reaches the connection. Exclusivity of pooled connections under concurrency is C24's check; this check is an enumeration of session shapes with concrete data (the property quantifies over programs).",
		Assumptions: []string{"stub wires (harness code); pool exclusivity under concurrent acquirers is established by C24"},
		Outside:     []string{"dedicatedClusterClient and sentinel dedicated clients", "concurrent schedules of the other callers (they run between two session steps)"},
		Bounds:      map[string]any{"quick": "2 entry styles × invalidation callback on/off × double release", "thorough": "same"},
		specs: func(tier string) []specRef {
			return []specRef{hsd(rootPkg, "VerifC25_dedicated", nil, 0, 100000, 900, "done", "trackingoff"),
				// release racing with Close / a second release of the same dedicated client
				hsd(rootPkg, "VerifC25_concurrentRelease", nil, q(tier, 2, 3), 2000000, 1800, "released")}
		},
	}
}
