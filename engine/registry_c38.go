package main

const limiterPkg = "github.com/redis/rueidis/rueidislimiter"

// the Go side renders numbers with strconv; symbolic numbers travel as placeholders
var luaOverrides = map[string]string{
	"strconv.AppendInt":  "verifAppendInt",
	"strconv.AppendUint": "verifAppendUint",
	"strconv.FormatInt":  "verifFormatInt",
	"strconv.FormatUint": "verifFormatUint",
	"strconv.Itoa":       "verifLuaItoa",
	"strconv.ParseInt":   "verifParseInt",
	"strconv.ParseUint":  "verifParseUint",
}

func init() {
	checks["C38"] = &checkDef{
		Level:       levelOther,
		Explanation: "Symbolic execution of the real rueidislimiter AllowN/Allow/Check (limiter.go) against a Redis model that executes the real rateLimitScript text — received from the real code through its EVALSHA→EVAL fallback — in a Lua interpreter written as harness Go (harness/luasym.go.txt: lexer, parser, evaluator for the subset the repository's scripts use; numbers are symbolic 64-bit integers). Script executions are atomic in Redis, so every interleaving of concurrent callers is a sequence of script runs with unconstrained caller clocks. (a) Inductive step: arbitrary state satisfying the invariant (no window, or both keys present with the same expiry, counter ≥ 0, ghost admitted ≤ min(counter, limit)), symbolic limit, window, caller clock, server clock and n; one Check/Allow/AllowN call; assertions: one script run, ResetAtMs is the stored window end, Remaining = max(limit − requested, 0), the admitted total of the window stays ≤ limit, Check consumes nothing, a request that fits is admitted, the invariant is re-established. One step covers histories of any length and any number of callers. (b) Histories of K calls from the empty keyspace with symbolic n, clocks and server time, summing admitted units per reported window without the invariant; one reply per history may be lost after the server ran the script (the stub re-sends only commands marked retryable, as the real client does): Remaining must count every request exactly once.",
		Assumptions: []string{"numbers below 2^50 (Lua numbers are doubles: above 2^53 integer precision is lost) and clocks below 2^44 ms", "the two keys are only written by this script (no eviction, no foreign writer)", "strconv number formatting/parsing on the Go side is replaced by placeholder-based overrides (symbolic numbers cannot be rendered digit by digit)", "the Lua interpreter and the Redis model (GET, SET PXAT, INCRBY, key expiry by the server clock) are harness code"},
		Trusted:     []string{"harness/luasym.go.txt (Lua subset interpreter, Redis model)"},
		Outside:     []string{"per-call custom limits (WithCustomRateLimit) mixing different limits on one identifier", "transport errors (no units are admitted when AllowN returns an error)"},
		Bounds:      map[string]any{"quick": "inductive step (any history length); histories of 3 calls; histories of 2 calls with one lost reply", "thorough": "inductive step; histories of 3 calls; 3 calls with one lost reply"},
		specs: func(tier string) []specRef {
			a := hsx(limiterPkg, "VerifC38_step", nil, 2000000, 3000, "negative", "newwindow", "samewindow", "admitted", "denied")
			a.dir = "rueidislimiter"
			a.spec.Overrides = luaOverrides
			b := hsx(limiterPkg, "VerifC38_history", P{"calls": 3, "lost_replies": 0}, 2000000, 3000, "admitted", "twowindows")
			b.dir = "rueidislimiter"
			b.spec.Overrides = luaOverrides
			c := hsx(limiterPkg, "VerifC38_history", P{"calls": q(tier, int64(2), 3), "lost_replies": 1}, 2000000, 3000, "admitted", "lostreply")
			c.dir = "rueidislimiter"
			c.spec.Overrides = luaOverrides
			return []specRef{a, b, c}
		},
	}
}
