package main

// The harness vocabulary (functions named verifXxx in the package under test). In the engine
// they are intercepted here; for native replay /verif/harness/rt_native.go.txt gives them
// bodies that read a recorded vector.

import (
	"fmt"
	"go/types"

	"golang.org/x/tools/go/ssa"
)

var verifIntrinsics = map[string]intrinsicFn{}

func (m *machine) logNondet(kind string, lo int64, terms []*term, conc []int64) {
	m.nondetLog = append(m.nondetLog, nondetRec{key: m.lazyKey, kind: kind, terms: terms, lo: lo, conc: conc})
}

func (m *machine) freshInt(label string, w int, signed bool) value {
	t := m.fresh(label, w)
	m.logNondet("int", 0, []*term{t}, nil)
	return &sym{t: t}
}

func init() {
	v := verifIntrinsics
	v["verifNondetInt"] = func(m *machine, fr *frame, fn *ssa.Function, a []value) (value, bool) {
		lo := m.concInt(a[0], "lo")
		hi := m.concInt(a[1], "hi")
		if lo > hi {
			m.abort(outInfeasible, "verifNondetInt: empty range")
		}
		if lo == hi {
			m.logNondet("int", 0, []*term{m.tf.bv(uint64(lo), 64)}, nil)
			return lo, true
		}
		t := m.fresh("int", 64)
		m.assumeTerm(m.tf.cmp("bvsle", m.tf.bv(uint64(lo), 64), t))
		m.assumeTerm(m.tf.cmp("bvsle", t, m.tf.bv(uint64(hi), 64)))
		m.logNondet("int", 0, []*term{t}, nil)
		return &sym{t: t}, true
	}
	v["verifNondetInt64"] = func(m *machine, fr *frame, fn *ssa.Function, a []value) (value, bool) {
		return m.freshInt("int64", 64, true), true
	}
	v["verifNondetUint64"] = func(m *machine, fr *frame, fn *ssa.Function, a []value) (value, bool) {
		return m.freshInt("uint64", 64, false), true
	}
	v["verifNondetUint32"] = func(m *machine, fr *frame, fn *ssa.Function, a []value) (value, bool) {
		return m.freshInt("uint32", 32, false), true
	}
	v["verifNondetUint16"] = func(m *machine, fr *frame, fn *ssa.Function, a []value) (value, bool) {
		return m.freshInt("uint16", 16, false), true
	}
	v["verifNondetByte"] = func(m *machine, fr *frame, fn *ssa.Function, a []value) (value, bool) {
		return m.freshInt("byte", 8, false), true
	}
	v["verifNondetBool"] = func(m *machine, fr *frame, fn *ssa.Function, a []value) (value, bool) {
		t := m.fresh("bool", 0)
		m.logNondet("bool", 0, []*term{t}, nil)
		return &sym{t: t}, true
	}
	v["verifNondetBytes"] = func(m *machine, fr *frame, fn *ssa.Function, a []value) (value, bool) {
		n := int(m.concInt(a[0], "n"))
		vs := make([]value, n)
		ts := make([]*term, n)
		for i := range vs {
			ts[i] = m.fresh("byte", 8)
			vs[i] = &sym{t: ts[i]}
		}
		m.logNondet("bytes", 0, ts, nil)
		if n == 0 {
			return m.makeSlice(types.Typ[types.Uint8], 0, 0), true
		}
		return m.sliceFromValues(vs), true
	}
	v["verifNondetString"] = func(m *machine, fr *frame, fn *ssa.Function, a []value) (value, bool) {
		n := int(m.concInt(a[0], "n"))
		vs := make([]value, n)
		ts := make([]*term, n)
		for i := range vs {
			ts[i] = m.fresh("byte", 8)
			vs[i] = &sym{t: ts[i]}
		}
		m.logNondet("bytes", 0, ts, nil)
		return mkStr(vs), true
	}
	// verifChoose(n): forking choice, returns a concrete int in [0,n)
	v["verifChoose"] = func(m *machine, fr *frame, fn *ssa.Function, a []value) (value, bool) {
		n := int(m.concInt(a[0], "n"))
		if n <= 0 {
			m.abort(outInfeasible, "verifChoose(0)")
		}
		c := m.choose(n, "verifChoose")
		m.logNondet("choice", 0, nil, []int64{int64(c)})
		return int64(c), true
	}
	// verifConc(x): concretise a symbolic int (forks per feasible value)
	v["verifConc"] = func(m *machine, fr *frame, fn *ssa.Function, a []value) (value, bool) {
		return m.concInt(a[0], "verifConc"), true
	}
	v["verifAssume"] = func(m *machine, fr *frame, fn *ssa.Function, a []value) (value, bool) {
		switch c := a[0].(type) {
		case bool:
			if !c {
				m.abort(outInfeasible, "assumption false")
			}
		case *sym:
			m.assumeTerm(c.t)
			m.wk.decisionQueries++
			switch m.wk.solver.check() {
			case resUnsat:
				m.abort(outInfeasible, "assumption unsatisfiable")
			case resUnknown:
				m.unknownQ++
			}
		}
		return nil, true
	}
	v["verifAssert"] = func(m *machine, fr *frame, fn *ssa.Function, a []value) (value, bool) {
		m.asserts++
		msg := m.formatValue(fr, a[1], 'v')
		switch c := a[0].(type) {
		case bool:
			if !c {
				m.violation(fr, "assertion failed: "+msg)
			}
		case *sym:
			m.symAsserts++
			if !m.decideBool(c.t, "assert") {
				m.violation(fr, "assertion failed: "+msg)
			}
		}
		return nil, true
	}
	v["verifReach"] = func(m *machine, fr *frame, fn *ssa.Function, a []value) (value, bool) {
		m.reached[a[0].(string)] = true
		return nil, true
	}
	v["verifLog"] = func(m *machine, fr *frame, fn *ssa.Function, a []value) (value, bool) {
		if len(m.events) < 200 {
			m.events = append(m.events, m.formatValue(fr, a[0], 'v'))
		}
		return nil, true
	}
	v["verifParam"] = func(m *machine, fr *frame, fn *ssa.Function, a []value) (value, bool) {
		name := a[0].(string)
		if x, ok := m.cfg.params[name]; ok {
			return x, true
		}
		return a[1], true
	}
	v["verifGo"] = func(m *machine, fr *frame, fn *ssa.Function, a []value) (value, bool) {
		name := m.formatValue(fr, a[0], 'v')
		m.spawn(fr, a[1], nil, name)
		return nil, true
	}
	v["verifJoin"] = func(m *machine, fr *frame, fn *ssa.Function, a []value) (value, bool) {
		m.joinAll(fr)
		return nil, true
	}
	v["verifYield"] = func(m *machine, fr *frame, fn *ssa.Function, a []value) (value, bool) {
		m.gosched(fr)
		return nil, true
	}
	v["verifPreemptPoint"] = func(m *machine, fr *frame, fn *ssa.Function, a []value) (value, bool) {
		m.yieldPoint(fr, "harness")
		return nil, true
	}
	v["verifDaemon"] = func(m *machine, fr *frame, fn *ssa.Function, a []value) (value, bool) {
		m.cur.daemon = true
		m.wakeJoiners()
		return nil, true
	}
	v["verifAdvance"] = func(m *machine, fr *frame, fn *ssa.Function, a []value) (value, bool) {
		m.now += m.concInt(a[0], "advance")
		return nil, true
	}
	// verifIdle: park until nothing else can run (lets background goroutines and idle timers settle)
	v["verifSettle"] = func(m *machine, fr *frame, fn *ssa.Function, a []value) (value, bool) {
		for len(m.runnable()) > 0 {
			m.gosched(fr)
		}
		return nil, true
	}
	// verifIte(c, a, b): if-then-else as a term (no fork)
	v["verifIte"] = func(m *machine, fr *frame, fn *ssa.Function, a []value) (value, bool) {
		if c, ok := a[0].(bool); ok {
			if c {
				return a[1], true
			}
			return a[2], true
		}
		return m.fromTerm(m.tf.ite(m.toTerm(a[0], 0), m.toTerm(a[1], 64), m.toTerm(a[2], 64)), true), true
	}
	v["verifIsSymbolic"] = func(m *machine, fr *frame, fn *ssa.Function, a []value) (value, bool) {
		return !isConcrete(a[0]), true
	}
	// verifAdvanceCounter(sel, v): store v into the atomic.Uint32 captured by the closure sel.
	v["verifAdvanceCounter"] = func(m *machine, fr *frame, fn *ssa.Function, a []value) (value, bool) {
		c, ok := a[0].(*closure)
		if !ok {
			panic(unsupported("verifAdvanceCounter: not a closure"))
		}
		done := false
		for i, fv := range c.fn.FreeVars {
			if fv.Type().String() == "*sync/atomic.Uint32" {
				p := c.env[i].(ptr)
				st := (*p.c).(structure)
				st[len(st)-1] = a[1]
				done = true
			}
		}
		if !done {
			panic(unsupported("verifAdvanceCounter: closure captures no *atomic.Uint32"))
		}
		return nil, true
	}
	// verifLazySlice(n, gen): a slice of n elements, element i materialised by gen(i) at its first
	// access (lazy initialisation): the code under test explores only the shapes it looks at.
	v["verifLazySlice"] = func(m *machine, fr *frame, fn *ssa.Function, a []value) (value, bool) {
		n := int(m.concInt(a[0], "n"))
		if m.lazyCount == nil {
			m.lazyCount = map[string]int{}
		}
		key := fmt.Sprintf("%s#%d", m.lazyKey, m.lazyCount[m.lazyKey])
		m.lazyCount[m.lazyKey]++
		vs := make([]value, n)
		for i := range vs {
			vs[i] = &lazyCell{gen: a[1], idx: i, key: fmt.Sprintf("%s/%d", key, i)}
		}
		if n == 0 {
			et := fn.Signature.Results().At(0).Type().Underlying().(*types.Slice).Elem()
			return m.makeSlice(et, 0, 0), true
		}
		return m.sliceFromValues(vs), true
	}
	v["verifFail"] =func(m *machine, fr *frame, fn *ssa.Function, a []value) (value, bool) {
		m.asserts++
		m.violation(fr, "assertion failed: "+m.formatValue(fr, a[0], 'v'))
		return nil, true
	}
	v["verifUnsupported"] = func(m *machine, fr *frame, fn *ssa.Function, a []value) (value, bool) {
		panic(unsupported(fmt.Sprint(a[0])))
	}
}
