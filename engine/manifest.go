package main

// symgo manifest: regenerate /verif/MANIFEST.json from the registry and na_reasons.json.

import (
	"bufio"
	"encoding/json"
	"fmt"
	"os"
	"path/filepath"
	"strings"
)

func cmdManifest() int {
	ids := checkIDs()
	claimed := map[string]bool{}
	var checksOut []map[string]any
	for _, id := range ids {
		d := checks[id]
		claimed[id] = true
		b, _ := json.Marshal(d.Bounds)
		checksOut = append(checksOut, map[string]any{
			"property_id":         id,
			"quick_cmd":           "bin/symgo check " + id + " --tier quick",
			"thorough_cmd":        "bin/symgo check " + id + " --tier thorough",
			"evidence_file":       "/verif/evidence/" + id + ".json",
			"replay_cmd_template": "bin/symgo replay {path}",
			"engine":              "symgo",
			"technique":           "bounded symbolic execution of go/ssa + SMT (z3 5.1.0 incremental, one-shot z3 fallback); counterexamples replayed natively with go test -overlay",
			"level_claimed": map[string]any{
				"category":   d.Level,
				"text":       d.Explanation + " Bounds: " + string(b),
				"design_ref": "DESIGN.md §5 " + id,
			},
			"level_note": "Assumed/trusted: " + strings.Join(append(append([]string{}, d.Assumptions...), d.Trusted...), "; ") +
				". Outside the claim: " + strings.Join(d.Outside, "; ") +
				". Trusted base: go/ssa translation, the symgo interpreter and its intrinsics (listed per run in the evidence file), the SMT solver.",
		})
	}
	reasons := map[string]string{}
	if b, err := os.ReadFile(filepath.Join(verifDir, "na_reasons.json")); err == nil {
		json.Unmarshal(b, &reasons)
	}
	var na []map[string]any
	f, err := os.Open(filepath.Join(verifDir, "properties.jsonl"))
	if err != nil {
		fmt.Fprintln(os.Stderr, err)
		return 2
	}
	defer f.Close()
	sc := bufio.NewScanner(f)
	sc.Buffer(make([]byte, 1<<20), 1<<24)
	for sc.Scan() {
		var p struct {
			ID string `json:"id"`
		}
		if json.Unmarshal(sc.Bytes(), &p) != nil || p.ID == "" || claimed[p.ID] {
			continue
		}
		r := reasons[p.ID]
		if r == "" {
			r = "check not built yet (work in progress; see DESIGN.md §8 build order)"
		}
		na = append(na, map[string]any{"property_id": p.ID, "reason": r})
	}
	m := map[string]any{
		"version":   1,
		"setup_cmd": "./build.sh",
		"hooks": map[string]any{
			"guard":            "overlay-only (no source hooks: harnesses enter /repo packages through go/packages Overlay and go test -overlay; nothing under /repo is written)",
			"enable":           "bin/symgo loads /repo with an in-memory overlay of /verif/harness/**",
			"baseline_off_cmd": "cd /repo && go test -vet=off -count=1 -timeout 25m ./...",
			"source_commits":   fixCommits(),
			"add_only":         true,
		},
		"engines": []map[string]any{{
			"name": "symgo", "path": "engine/", "serves_properties": ids,
			"kind_free_text": "symbolic interpreter for go/ssa (x/tools v0.50.0) with SMT back end; inputs, faults and the goroutine schedule are symbolic decisions explored by re-execution",
		}},
		"checks":         checksOut,
		"not_applicable": na,
		"notes":          "See DESIGN.md. Exit codes of a check: 0 = held within bounds, 1 = VIOLATION (replayed), 2 = INCONCLUSIVE (bound/unknown/unsupported; never reported as success).",
	}
	b, _ := json.MarshalIndent(m, "", " ")
	if err := os.WriteFile(filepath.Join(verifDir, "MANIFEST.json"), append(b, '\n'), 0o644); err != nil {
		fmt.Fprintln(os.Stderr, err)
		return 2
	}
	fmt.Printf("MANIFEST.json: %d checks, %d not applicable\n", len(checksOut), len(na))
	return 0
}

// fixCommits lists the "fix:" commits recorded in known_findings.json.
func fixCommits() []string {
	out := []string{}
	for _, k := range loadKnown() {
		if k.Status == "fixed" && k.Commit != "" {
			out = append(out, k.Commit)
		}
	}
	return out
}
