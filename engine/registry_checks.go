package main

// The registered checks. Bounds here are the ones that ran clean on the unchanged tree.

const cmdsPkg = "github.com/redis/rueidis/internal/cmds"

func hs(pkg, name string, params map[string]int64, witnesses ...string) specRef {
	return specRef{dir: "", spec: &harnessSpec{Pkg: pkg, Name: name, Params: params, Witnesses: witnesses}}
}

type P = map[string]int64

const levelOther = "other"
const levelMC = "model_checking"

func init() {
	checks["C14"] = &checkDef{
		Level: levelOther,
		Explanation: "Bounded symbolic execution of the real writeCmd/writeB/writeN/flushCmd (SSA of /repo/resp.go) over bufio.Writer with argv whose byte contents are symbolic and whose lengths range over every decimal digit-count boundary; an independent length-prefixed decoder in the harness must return exactly argv and consume exactly the bytes, for two consecutive commands. Content equality is decided on terms (solver for any non-identical pair).",
		Assumptions: []string{"the underlying io.Writer accepts all bytes (healthy connection)", "argument lengths are concrete per path (forked over the boundary set), contents symbolic: ≤12 bytes fully symbolic, longer arguments symbolic in their first and last 3 bytes"},
		Outside:     []string{"argument lengths other than the digit-boundary set", "writeN for n ≥ 10^15 (float64 Log10 rounding, measured outside)", "write errors (C04)"},
		Bounds: map[string]any{
			"quick":    "arity 0..2, per-argument length ∈ {0,1,9,10,11,99,100,101}, writer buffers 16/64/4096 B; arity header ∈ {9,10,11,99,100,101}; writeN around 10^1..10^8",
			"thorough": "arity 0..3 over the same 8 lengths, arity header up to 1001, writeN around 10^1..10^14",
		},
		specs: func(tier string) []specRef {
			return []specRef{
				hs(rootPkg, "VerifC14_writeCmd", P{"max_args": q(tier, int64(2), 3), "n_lens": q(tier, int64(8), 8)}, "decoded"),
				hs(rootPkg, "VerifC14_arity", P{"n_counts": q(tier, int64(6), 9)}, "arity"),
				hs(rootPkg, "VerifC14_writeN", P{"n_pows": q(tier, int64(8), 14)}, "writeN"),
			}
		},
	}
	checks["C18"] = &checkDef{
		Level: levelOther,
		Explanation: "Solver-checked lemmas over the real internal/cmds code: (1) every crc16tab entry equals eight bitwise CRC-16/XMODEM steps of its index (symbolic index, 256-way ite); (2) crc16(s) equals the bitwise reference for all strings of ≤ N symbolic bytes — with N = 3 the last loop iteration starts from every one of the 2^16 CRC states, so the loop body is covered for all (state, byte) pairs; (3) slot(key) equals CRC16 of the specification's hash tag (first '{' … next '}' if non-empty) & 16383 for every key of ≤ L symbolic bytes; (4) cluster builders reject and non-cluster builders accept keys in different slots.",
		Assumptions: []string{"the harness-side bitwise XMODEM and hash-tag rule are the specification (written from the Redis cluster spec)"},
		Outside:     []string{"keys longer than the bound for the hash-tag rule (the scan loops are uniform; no inductive argument is claimed)", "the 8k generated builder methods other than MGET/GET (key folding is shared code: check/InitSlot)"},
		Bounds: map[string]any{
			"quick":    "crc16 on ≤ 2 symbolic bytes; hash tag on keys of ≤ 6 symbolic bytes; builder keys of 1..2 symbolic bytes",
			"thorough": "crc16 on ≤ 3 symbolic bytes; hash tag on keys of ≤ 9 symbolic bytes; builder keys of 1..2 symbolic bytes (3-byte keys in two-key commands: solver gives up on the CRC equalities)",
		},
		specs: func(tier string) []specRef {
			return []specRef{
				hs(cmdsPkg, "VerifC18_crcTable", nil, "table"),
				hs(cmdsPkg, "VerifC18_crcSmall", P{"max_len": q(tier, int64(2), 3)}, "crc"),
				hs(cmdsPkg, "VerifC18_hashtag", P{"max_len": q(tier, int64(6), 9)}, "slot", "tagged"),
				hs(cmdsPkg, "VerifC18_keyMethods", P{"max_key": 2}, "crossslot", "noslot"),
			}
		},
	}
	checks["C22"] = &checkDef{
		Level: levelOther,
		Explanation: "Bounded symbolic execution of the real PreferReplicaNodeSelector, AZAffinityNodeSelector, AZAffinityReplicasAndPrimaryNodeSelector (helper.go: newAZSelector, pickAZ) on node lists with a symbolic AZ byte per node and a symbolic client AZ; the private round-robin counter starts at an arbitrary (symbolic) uint32, so one call sequence of two calls stands for any call history. Oracle: result is -1 or a valid index, lies in the best-ranked candidate set written independently from the documentation, and two consecutive calls rotate.",
		Assumptions: []string{"counter values within 16 of 2^32 are excluded (rotation hiccup at wrap-around is not part of the statement)", "verifAdvanceCounter sets the closure's captured atomic.Uint32 (engine intrinsic; natively replayed by v calls)"},
		Outside:     []string{"node lists of 13..253 nodes, and 6..8 nodes in the quick tier", "large lists and the eight-candidate lists use 11 concrete counter phases (all residues modulo 8): 32-bit remainder by constants near 255 does not finish in the solver"},
		Bounds: map[string]any{
			"quick":    "0..5 nodes (nil and empty list included), all AZ bytes symbolic, symbolic counter; 9/10/12 nodes with eight or more same-AZ replicas (primary and 2 positions symbolic, symbolic counter); 254/255/256/257/300 nodes with ≤ 2 symbolic AZ positions",
			"thorough": "0..8 nodes; same large cases",
		},
		specs: func(tier string) []specRef {
			return []specRef{
				hs(rootPkg, "VerifC22_small", P{"max_nodes": q(tier, int64(5), 8)}, "sameaz", "primaryaz", "rotate", "fallback"),
				hs(rootPkg, "VerifC22_large", nil, "sameaz", "rotate"),
				hs(rootPkg, "VerifC22_many", nil, "sameaz", "rotate"),
			}
		},
	}
}
