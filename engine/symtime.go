package main

// Symbolic time (DESIGN §2.8): a time.Time whose instant is a symbolic number of milliseconds
// since the Unix epoch. Representation: wall = 0 (no monotonic reading), ext = *symMs, loc = nil.
// The methods the library uses on such values are intercepted below; any other code touching
// ext fails as "unsupported" (never silently wrong). Symbolic durations must be whole
// milliseconds: a term of the form x * 1e6 (what `time.Duration(x) * time.Millisecond` builds).

import (
	"go/types"

	"golang.org/x/tools/go/ssa"
)

type symMs struct{ t *term }

func (m *machine) timeFields() (wall, ext int) {
	tt := m.timeType()
	return fieldIndex(tt, "wall"), fieldIndex(tt, "ext")
}

func (m *machine) symTimeValue(ms *term) value {
	if ms.isConst() {
		return m.timeValue(int64(ms.c) * 1e6)
	}
	tt := m.timeType()
	st := zero(tt).(structure)
	_, ext := m.timeFields()
	st[ext] = &symMs{t: ms}
	return st
}

// timeArg dereferences a Time passed by value or by pointer.
func timeArg(v value) (structure, bool) {
	switch x := v.(type) {
	case structure:
		return x, true
	case ptr:
		if x.c != nil {
			if st, ok := (*x.c).(structure); ok {
				return st, true
			}
		}
	}
	return nil, false
}

func (m *machine) isSymTime(v value) bool {
	st, ok := timeArg(v)
	if !ok {
		return false
	}
	_, ext := m.timeFields()
	_, is := st[ext].(*symMs)
	return is
}

// msOf returns the Unix-millisecond term of a Time value (symbolic or concrete).
func (m *machine) msOf(v value) *term {
	st, _ := timeArg(v)
	wall, ext := m.timeFields()
	if s, ok := st[ext].(*symMs); ok {
		return s.t
	}
	w, ok1 := st[wall].(int64)
	e, ok2 := st[ext].(int64)
	if !ok1 || !ok2 {
		panic(unsupported("time value with symbolic fields"))
	}
	var sec, nsec int64
	if uint64(w)&(1<<63) != 0 { // hasMonotonic: seconds since 1885 in wall
		sec = int64(uint64(w)<<1>>31) + (1884*365+1884/4-1884/100+1884/400)*86400
		nsec = int64(uint64(w) & (1<<30 - 1))
	} else {
		sec = e
		nsec = int64(uint64(w) & (1<<30 - 1))
	}
	unix := sec - unixToInternal
	return m.tf.bv(uint64(unix*1000+nsec/1e6), 64)
}

// durMs extracts whole milliseconds from a Duration value.
func (m *machine) durMs(v value) *term {
	switch d := v.(type) {
	case int64:
		if d%1e6 != 0 {
			panic(unsupported("sub-millisecond duration combined with symbolic time"))
		}
		return m.tf.bv(uint64(d/1e6), 64)
	case *sym:
		t := d.t
		if t.op == "bvmul" && len(t.args) == 2 {
			for i := 0; i < 2; i++ {
				if c := t.args[i]; c.isConst() && int64(c.c) > 0 && int64(c.c)%1e6 == 0 {
					if int64(c.c) == 1e6 {
						return t.args[1-i]
					}
					// whole seconds, minutes, ...: x * (c / 1e6) milliseconds
					return m.tf.bin("bvmul", t.args[1-i], m.tf.bv(uint64(int64(c.c)/1e6), 64))
				}
			}
		}
		panic(unsupported("symbolic duration that is not of the form x * time.Millisecond"))
	}
	panic(unsupported("duration value"))
}

func (m *machine) msToDur(ms *term) value {
	return m.fromTerm(m.tf.bin("bvmul", ms, m.tf.bv(1e6, 64)), true)
}

func init() {
	anySym := func(m *machine, vs ...value) bool {
		for _, v := range vs {
			if m.isSymTime(v) {
				return true
			}
			if s, ok := v.(*sym); ok && !s.t.isConst() {
				return true
			}
		}
		return false
	}
	reg("(time.Time).Add", func(m *machine, fr *frame, fn *ssa.Function, a []value) (value, bool) {
		if !anySym(m, a[0], a[1]) {
			return nil, false
		}
		return m.symTimeValue(m.tf.bin("bvadd", m.msOf(a[0]), m.durMs(a[1]))), true
	})
	reg("(time.Time).Sub", func(m *machine, fr *frame, fn *ssa.Function, a []value) (value, bool) {
		if !anySym(m, a[0], a[1]) {
			return nil, false
		}
		return m.msToDur(m.tf.bin("bvsub", m.msOf(a[0]), m.msOf(a[1]))), true
	})
	reg("(time.Time).UnixMilli", func(m *machine, fr *frame, fn *ssa.Function, a []value) (value, bool) {
		if !m.isSymTime(a[0]) {
			return nil, false
		}
		return m.fromTerm(m.msOf(a[0]), true), true
	})
	cmpT := func(op string, swap bool) intrinsicFn {
		return func(m *machine, fr *frame, fn *ssa.Function, a []value) (value, bool) {
			if !anySym(m, a[0], a[1]) {
				return nil, false
			}
			x, y := m.msOf(a[0]), m.msOf(a[1])
			if swap {
				x, y = y, x
			}
			if op == "=" {
				return m.fromTerm(m.tf.eq(x, y), false), true
			}
			return m.fromTerm(m.tf.cmp(op, x, y), false), true
		}
	}
	reg("(time.Time).Before", cmpT("bvslt", false))
	reg("(time.Time).After", cmpT("bvslt", true))
	reg("(time.Time).Equal", cmpT("=", false))
	reg("(time.Time).IsZero", func(m *machine, fr *frame, fn *ssa.Function, a []value) (value, bool) {
		if !m.isSymTime(a[0]) {
			return nil, false
		}
		return false, true
	})
	reg("time.Since", func(m *machine, fr *frame, fn *ssa.Function, a []value) (value, bool) {
		if !m.isSymTime(a[0]) && m.nowSym == nil {
			return nil, false
		}
		return m.msToDur(m.tf.bin("bvsub", m.nowMs(), m.msOf(a[0]))), true
	})
	reg("time.Until", func(m *machine, fr *frame, fn *ssa.Function, a []value) (value, bool) {
		if !m.isSymTime(a[0]) && m.nowSym == nil {
			return nil, false
		}
		return m.msToDur(m.tf.bin("bvsub", m.msOf(a[0]), m.nowMs())), true
	})
	// verifSetNowMs(ms): from now on time.Now() reads this (possibly symbolic) instant.
	verifIntrinsics["verifSetNowMs"] = func(m *machine, fr *frame, fn *ssa.Function, a []value) (value, bool) {
		m.nowSym = m.toTerm(a[0], 64)
		return nil, true
	}
	// verifTimeMs(ms): a time.Time at the given (possibly symbolic) Unix millisecond.
	verifIntrinsics["verifTimeMs"] = func(m *machine, fr *frame, fn *ssa.Function, a []value) (value, bool) {
		return m.symTimeValue(m.toTerm(a[0], 64)), true
	}
	_ = types.Typ
}

func (m *machine) nowMs() *term {
	if m.nowSym != nil {
		return m.nowSym
	}
	return m.tf.bv(uint64(m.now/1e6), 64)
}

func init() {
	// location changes do not change the instant
	ident := func(m *machine, fr *frame, fn *ssa.Function, a []value) (value, bool) {
		if !m.isSymTime(a[0]) {
			return nil, false
		}
		st, _ := timeArg(a[0])
		return st, true
	}
	reg("(time.Time).UTC", ident)
	reg("(time.Time).Local", ident)
}
