package main

func init() {
	checks["C03"] = &checkDef{
		Level:       levelMC,
		Explanation: "Two layers. (L1, client layer) singleClient.DoMulti batches mixing writes, reads and retryable writes with the connection dropping after the server executed a prefix (VerifC28_multi), and the real singleClient.Do and clusterClient.Do with stub connections whose outcome per attempt is a decision (executed with reply, executed but reply lost in a transport error, not executed with transport error, LOADING/TRYAGAIN/CLUSTERDOWN, MOVED/ASK, errConnExpired, context ended); a ghost counter counts executions. Oracle: a command that is neither read-only nor marked retryable is executed at most once per call, every re-send follows a redirect or an errConnExpired — under the contract that a call completed with errConnExpired was not executed. (L2, pipe layer) that contract is the obligation of VerifC03_expiry: a real pipe with a connection lifetime (lifetime timer → expired() → Close with its 1 s grace PING), ring or flow-buffer queue, sync or pipelining start state, over an in-memory connection whose server either answers or has received the command but answers too late; delay-bounded schedules. Oracle: a call whose command the server has received never completes with errConnExpired.",
		Assumptions: []string{"timers (lifetime, Close's grace period) fire only when nothing else can run — i.e. the slow server's reply takes longer than lifetime + grace", "sequentially consistent memory; switches at visible operations"},
		Trusted:     []string{"stub connections, verifConn and server (harness code); engine scheduler and timers"},
		Outside:     []string{"DoMulti with MULTI/EXEC blocks (singleClient's partial re-send after errConnExpired), sentinel and standalone clients (same re-send-on-errConnExpired rule)", "server-side duplicate execution for reasons unrelated to the client"},
		Bounds:      map[string]any{"quick": "L1: ≤ 3 attempts (single), ≤ 4 hops (cluster); L2: one call, D = 1", "thorough": "L1: ≤ 4 / 5; L2: D = 2"},
		specs: func(tier string) []specRef {
			r := hsx(rootPkg, "VerifC19_redirect", P{"max_hops": q(tier, int64(4), 5)}, 3000000, 3000, "done")
			r.spec.Overrides = clusterOverrides
			return []specRef{
				hsx(rootPkg, "VerifC28_single", P{"max_attempts": q(tier, int64(3), 4)}, 3000000, 3000, "returned"),
				hsx(rootPkg, "VerifC28_multi", P{"max_attempts": q(tier, int64(3), 4)}, 3000000, 3000, "dropped", "dedicated", "returned"),
				r,
				hsd(rootPkg, "VerifC03_expiry", nil, q(tier, 1, 2), 3000000, 3000, "served", "failed"),
			}
		},
	}
}
