package main

func init() {
	checks["C09"] = &checkDef{
		Level:       levelMC,
		Explanation: "(1) Rely/guarantee step (VerifC09_step*): the store is put into an arbitrary state — each of three identities (two commands under one key, one under another) absent, pending, pending with a waiter, or completed, inserted in either order, map iteration order a decision — then ONE operation (Update, Cancel, per-key invalidation, flush, Close, Flight) runs and the complete observable state (a Flight on every identity, every waiter) is compared with the ghost model; this covers operation histories of any length over these shapes. (2) Bounded-history exploration of the real lru store and NewSimpleCacheAdapter (Flight, Update, Cancel, Delete(key|nil), Close) against a ghost model of the single-flight protocol: every sequence of ≤ S operations over K keys × 2 commands from a fresh store. Oracle per operation: a miss with nothing in flight tells exactly one caller to send; while that request is pending every other reader gets the pending entry and sends nothing; Update delivers the owner's reply to every waiter (CacheEntry.Wait returns it) and later reads hit with exactly that reply; Cancel and Close wake every waiter with the error and leave nothing cached (the next Flight sends again); an invalidation (per key or flush) removes completed entries and leaves pending ones; a closed store never answers with a hit. A Wait that would block is a HANG violation. Concurrent readers racing on one store are covered by C05 (VerifC05_cacheWait) and the pipe-level paths by C06.",
		Assumptions: []string{"operations are serialised by the store mutex (checked as sequences); TTLs long enough not to expire within a history"},
		Outside:     []string{"histories longer than S; pipe.DoCache/DoMultiCache's use of the store under transaction aborts (EXEC nil) is not modelled here"},
		Bounds:      map[string]any{"quick": "S = 4 operations, 1 key × 2 commands", "thorough": "S = 4 operations, 2 keys × 2 commands"},
		specs: func(tier string) []specRef {
			pp := P{"steps": 4, "nkeys": q(tier, int64(1), 2)}
			return []specRef{
				hsx(rootPkg, "VerifC09_stepLRU", P{"map_order": 1}, 5000000, 3400, "flight", "update", "cancel", "invalidate", "flush", "close", "woken"),
				hsx(rootPkg, "VerifC09_stepAdapter", P{"map_order": 1}, 5000000, 3400, "flight", "update", "cancel", "invalidate", "flush", "close", "woken"),
				hsx(rootPkg, "VerifC09_lru", pp, 5000000, 3400, "send", "wait", "hit", "completed", "cancelled", "invalidated", "closed"),
				hsx(rootPkg, "VerifC09_adapter", pp, 5000000, 3400, "send", "wait", "hit", "completed", "cancelled", "invalidated", "closed"),
			}
		},
	}
}
