package main

const probPkg = "github.com/redis/rueidis/rueidisprob"

func merged(ms ...map[string]string) map[string]string {
	out := map[string]string{}
	for _, m := range ms {
		for k, v := range m {
			out[k] = v
		}
	}
	return out
}

// murmur3 and the index arithmetic are replaced in the history harnesses by an arbitrary
// function of (key, i) into [0, size); index() itself is checked on symbolic inputs.
var probOverrides = merged(luaOverrides, map[string]string{
	probPkg + ".hash":  "verifHash",
	probPkg + ".index": "verifIndex",
})

func probSpec(name string, params P, ov map[string]string, timeoutS int, w ...string) specRef {
	r := hsx(probPkg, name, params, 3000000, timeoutS, w...)
	r.dir = "rueidisprob"
	r.spec.Overrides = ov
	return r
}

func init() {
	checks["C35"] = &checkDef{
		Level:       levelOther,
		Explanation: "Symbolic execution of the real rueidisprob bloomFilter (NewBloomFilter, Add, AddMulti, Exists, ExistsMulti, Count, indexes; bloomfilter.go, index.go) against a Redis model that runs the real add/exists script texts (both the read-write and the read-only exists script) in the harness-side Lua interpreter (harness/luasym.go.txt). (a) Sizing: symbolic n and an unconstrained float rate (float arithmetic over-approximated by unconstrained results): every accepted configuration has 1 ≤ size ≤ 2^32 and ≥ 1 hash function; concrete configurations (incl. rates 0.9 and 0.99) go through the real float arithmetic and a full add/exists/count round. (b) index(): symbolic h1, h2, i, size ≥ 1: the index is < size. (c) Histories: symbolic size in [1, 2^32], k hash functions, a fresh filter or an existing one with arbitrary contents (bits are an unknown function of the offset; arbitrary counter); Add / AddMulti in several shapes (duplicates, two items in both orders), optionally other items added in between, then ExistsMulti in several shapes and Exists; bit indexes are an arbitrary function of (item, i) so collisions between items are covered. Oracle: one answer per queried key, in order; every added item is reported present; Count never decreases and grows by at most the number of distinct items added.",
		Assumptions: []string{"murmur3 and index() are replaced in (c) by an arbitrary deterministic function of (item, i) into [0, size) — the property depends on them only through determinism and range, (b) checks the range on the real index()", "the Lua interpreter and the Redis model (BITFIELD u1 GET/SET, INCRBY, GET) are harness code", "strconv formatting/parsing on the Go side replaced by placeholder-based overrides"},
		Trusted:     []string{"harness/luasym.go.txt (Lua subset interpreter, Redis model)", "github.com/twmb/murmur3 (determinism)"},
		Outside:     []string{"Reset/Delete (the statement excludes them)", "transport errors (only successful adds are claimed)", "more than 3 hash functions or more than 4 distinct items per history"},
		Bounds:      map[string]any{"quick": "k ∈ {1,2}; histories: ≤ 2 add calls (≤ 4 items), ≤ 3 queried keys", "thorough": "k ∈ {1,2,3}"},
		specs: func(tier string) []specRef {
			return []specRef{
				probSpec("VerifC35_sizing", nil, nil, 600, "accepted", "rejected"),
				probSpec("VerifC35_index", nil, nil, 600, "index"),
				probSpec("VerifC35_config", nil, probOverrides, 600, "present"),
				probSpec("VerifC35_history", P{"max_k": q(tier, int64(2), 3)}, probOverrides, 3000, "existing", "interleaved", "present", "absent"),
			}
		},
	}
}

func init() {
	checks["C36"] = &checkDef{
		Level:       levelOther,
		Explanation: "Symbolic execution of the real rueidisprob countingBloomFilter (AddMulti, RemoveMulti, ExistsMulti, ItemMinCountMulti, Count and the single-item forms; countingbloomfilter.go) against a Redis model that runs the real add and remove-with-rollback script texts in the harness-side Lua interpreter; HMGET/GET issued by the Go side are answered by the same model. The hash holding the counters is fresh or has arbitrary non-negative pre-existing counters (contributions of other items); bit indexes are an arbitrary function of (item, i) so that every aliasing pattern between and within items is covered (the solver decides each field comparison). (a) Histories of adds and admissible removals (only items whose net multiplicity is ≥ 1, singly, in pairs, duplicated in one call) of two items: after every step no counter is negative; at the end every item with positive net multiplicity is reported present, ItemMinCount ≥ its net multiplicity, multi-key answers are per key in order. (b) Refused removals: an item with a zero counter removed alone or twice: no HINCRBY, no counter changed, Count unchanged; mixed with an admissible removal in either order: no counter negative and at most one item removed.",
		Assumptions: []string{"murmur3/index() replaced by an arbitrary deterministic function of (item, i) (see C35 (b) for index())", "the Lua interpreter and the Redis model (HINCRBY, HGET, HMGET, INCRBY, DECRBY, GET) are harness code", "strconv formatting/parsing replaced by placeholder-based overrides"},
		Trusted:     []string{"harness/luasym.go.txt"},
		Outside:     []string{"histories longer than the bound, more than two items", "Delete"},
		Bounds:      map[string]any{"quick": "k ∈ {1,2}, 2 steps", "thorough": "k ∈ {1,2}, 3 steps"},
		specs: func(tier string) []specRef {
			return []specRef{
				probSpec("VerifC36_history", P{"max_k": 2, "steps": q(tier, int64(2), 3)}, probOverrides, 3000, "existing", "removed", "queried"),
				probSpec("VerifC36_refused", P{"max_k": 2}, probOverrides, 3000, "refused", "mixed"),
			}
		},
	}
}

func init() {
	checks["C37"] = &checkDef{
		Level:       levelOther,
		Explanation: "Symbolic execution of the real rueidisprob slidingBloomFilter (NewSlidingBloomFilter incl. initialize, Add, AddMulti, Exists, ExistsMulti; slidingbloomfilter.go) against a Redis model that runs the real initialise/add/exists script texts (read-write and read-only exists variants) in the harness-side Lua interpreter. The server clock is a symbolic number of milliseconds; the rotation lock (SET lastRotation <time> PX windowHalf NX) expires by that clock; RENAME/SET rotate the two generations exactly as the scripts say. After the real initialisation both generations get arbitrary contents (unknown function of the bit offset) and an arbitrary time passes (so the lock is held or expired at the add); then Add(x) or AddMulti([y,x]) at time t0, up to N further operations (adds of other items, queries) at arbitrary non-decreasing times ≤ t0 + floor(window_ms/2), each of which may rotate, and a final ExistsMulti([q,x]) at an arbitrary time ≤ t0 + floor(window_ms/2). Oracle: x is reported present by every query in that interval, at its position.",
		Assumptions: []string{"murmur3/index() replaced by an arbitrary deterministic function of (item, i) (see C35)", "the Lua interpreter and the Redis model (TIME, SET PX NX with expiry by the server clock, MSET, EXISTS, RENAME, BITFIELD u1, INCRBY) are harness code", "the four filter keys are only touched by these scripts (no eviction, no foreign DEL)"},
		Trusted:     []string{"harness/luasym.go.txt"},
		Outside:     []string{"Reset/Delete (excluded by the statement)", "sub-millisecond timing", "windows other than 1 s, 2.001 s, 1 h (the window enters only through floor(ms/2))"},
		Bounds:      map[string]any{"quick": "k = 1, one operation between add and final query", "thorough": "k ∈ {1,2}, one operation in between"},
		specs: func(tier string) []specRef {
			return []specRef{
				probSpec("VerifC37_window", P{"max_k": q(tier, int64(1), 2), "ops": 1}, probOverrides, 3000, "boundary", "rotated", "present"),
			}
		},
	}
}
