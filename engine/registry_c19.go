package main

var clusterOverrides = map[string]string{"(*github.com/redis/rueidis.clusterClient).lazyRefresh": "verifLazyRefreshStub"}

func init() {
	redirect := func(tier string) specRef {
		r := hsx(rootPkg, "VerifC19_redirect", P{"max_hops": q(tier, int64(4), 5)}, 3000000, 3000, "moved", "asked", "retried", "done")
		r.spec.Overrides = clusterOverrides
		return r
	}
	checks["C19"] = &checkDef{
		Level:       levelOther,
		Explanation: "(1) VerifC19_topology: the real clusterClient._refresh (refreshConns, getClusterSlots, parseSlots / parseShards, parseEndpoint, slot-table construction) with stub connections answering a model topology encoded as a CLUSTER SLOTS reply (server version 7) or a CLUSTER SHARDS reply (version 8, replicas listed before the primary): two groups split at x ∈ {0, 5460, 16382}, optionally two ranges for one group with an unassigned gap, an extra replica that is healthy, unresolvable ('?') or failing, the answering node not knowing its own address. Oracle: for the probed slots {0,10,11,49,50,x,x+1,16383} the slot table points to the primary of the group whose range lists the slot and to nothing outside every range; unresolvable/unhealthy nodes get no connection. (2) VerifC19_redirect: the real clusterClient.Do/do/pick/redirectOrNew/shouldRefreshRetry with stub node connections whose reply per hop is a decision among ok, MOVED to a known node, MOVED to an unknown node, ASK, TRYAGAIN, LOADING, CLUSTERDOWN, transport error, errConnExpired, ordinary error; MaxMovedRedirections ∈ {unlimited,1,2}; retry on/off; RetryDelay negative or zero; read or write command. Oracle over the trace of sends: the first send goes to the slot's owner; after MOVED the command is re-sent alone to the named node (a connection is created for an unknown node and the slot table updated); after ASK it is sent to the named node preceded by ASKING; retries go to the slot's current owner and happen only within policy; the final reply (or last error) is returned; redirects never exceed the cap; a write is executed at most once.",
		Assumptions: []string{"the background topology refresh triggered by redirects (lazyRefresh) is overridden by a no-op in the redirect harness; it is exercised by the topology harness", "the topologies are concrete models, the probed slots a boundary set (the slot-table loop is uniform in the slot number)"},
		Trusted:     []string{"stub connections (harness code)", "math/rand.Shuffle and util.FastRand host stubs"},
		Outside:     []string{"TLS ports, replica routing tables (C21), refresh failures and partial answers, more than two groups", "singleflight of concurrent refreshes (call.Do/DelayDo)"},
		Bounds:      map[string]any{"quick": "≤ 4 hops per call; 96 topology variants", "thorough": "≤ 5 hops"},
		specs: func(tier string) []specRef {
			t := hsx(rootPkg, "VerifC19_topology", nil, 100000, 1800, "refreshed", "unowned")
			t.spec.MaxSteps = 50000000
			// redirects inside batches (doretry/doresultfn): shared with C20
			b := hsd(rootPkg, "VerifC20_batch", nil, q(tier, 1, 2), 3000000, 3000, "done", "redirected")
			b.spec.Overrides = merged(clusterOverrides, map[string]string{"(*github.com/redis/rueidis.clusterClient).refresh": "verifRefreshFill"})
			return []specRef{t, redirect(tier), b}
		},
	}
	checks["C28"] = &checkDef{
		Level:       levelOther,
		Explanation: "Batches: singleClient.DoMulti with 2..3 commands that are each a write, a read or a write marked retryable, the connection dropping after the server executed a prefix (a write that is not retryable runs at most once, a batch is re-sent only if every command in it may be), and clusterClient.DoMulti against a node that fails (LOADING or transport error) for r rounds under a RetryDelay policy that allows k retries and then says stop (the batch is sent at most k+1 times). Single commands: real singleClient.Do and clusterClient.Do with stub connections whose outcome per attempt is a decision (ok, nil reply, ordinary error reply, LOADING, MOVED, TRYAGAIN, CLUSTERDOWN, transport error, errConnExpired, context ended during the attempt), a real retryer with a RetryDelay function returning -1, 0 or 1 ms, DisableRetry on/off, the client closed while an attempt is in flight, and commands that are writes, reads, or writes marked retryable. Oracle over the sequence of attempts: a further attempt follows only an errConnExpired, a redirect, or — with retries enabled, a read-only or retryable command, a non-negative delay, a live context and an open client — a transport error or LOADING (for clusters also TRYAGAIN/CLUSTERDOWN); otherwise the reply is returned as it is (nil stays Nil, error replies stay errors).",
		Assumptions: []string{"stub connections and the transcription of 'executed' per outcome are harness code"},
		Outside:     []string{"DoCache/DoMultiCache/Receive retry loops, sentinel and standalone clients (same isRetryable predicate), dedicated clients", "the default RetryDelay function (exponential back-off with jitter)"},
		Bounds:      map[string]any{"quick": "≤ 3 attempts (single commands and batches), ≤ 4 hops (cluster), k ≤ 2 and r ≤ 4 (cluster batches)", "thorough": "≤ 4 attempts, ≤ 5 hops"},
		specs: func(tier string) []specRef {
			return []specRef{hsx(rootPkg, "VerifC28_single", P{"max_attempts": q(tier, int64(3), 4)}, 3000000, 3000, "retried", "returned"),
				hsx(rootPkg, "VerifC28_multi", P{"max_attempts": q(tier, int64(3), 4)}, 3000000, 3000, "retried", "dropped", "loading", "dedicated", "returned"),
				clusterRetry(), redirect(tier)}
		},
	}
}

func clusterRetry() specRef {
	r := hsd(rootPkg, "VerifC28_clusterMulti", nil, 0, 100000, 900, "recovered", "gaveup")
	r.spec.Overrides = clusterOverrides
	return r
}
