package main

// symgo: bounded symbolic execution of go/ssa with an SMT back end, for /repo (redis/rueidis).
//
//	symgo check <ID> --tier quick|thorough      run a property's harness set, write evidence
//	symgo run <pkgdir> <harness> [k=v ...]      run a single harness (development)
//	symgo replay <file>                         re-run a recorded counterexample natively
//	symgo list                                  list registered checks

import (
	"encoding/json"
	"fmt"
	"os"
	"path/filepath"
	"runtime/pprof"
	"sort"
	"strconv"
	"strings"
	"time"
)

// repoDir: the repository under analysis. Registered commands always use /repo; SYMGO_REPO lets
// background exploration runs (vp run --with-repo) work on a snapshot.
var repoDir = func() string {
	if d := os.Getenv("SYMGO_REPO"); d != "" {
		return d
	}
	return "/repo"
}()

var verifDir = "/verif"

func main() {
	if d := os.Getenv("VERIF_DIR"); d != "" {
		verifDir = d
	} else if wd, err := os.Getwd(); err == nil {
		if _, err := os.Stat(filepath.Join(wd, "harness")); err == nil {
			verifDir = wd
		}
	}
	os.Setenv("PATH", "/opt/veriftools/go1.26.8/bin:"+os.Getenv("PATH"))
	os.Setenv("GOFLAGS", "-mod=mod")
	os.Setenv("GOPROXY", "off")
	os.Setenv("GOSUMDB", "off")
	os.Setenv("GOTOOLCHAIN", "local")
	os.Setenv("GOWORK", "off")
	if f := os.Getenv("SYMGO_SMTLOG"); f != "" {
		if w, err := os.Create(f); err == nil {
			smtLog = w
		}
	}
	if f := os.Getenv("SYMGO_CPUPROFILE"); f != "" {
		if w, err := os.Create(f); err == nil {
			pprof.StartCPUProfile(w)
		}
	}
	if os.Getenv("SYMGO_STEPPROF") != "" {
		stepProf = map[string]int{}
	}
	rc := realMain()
	if stepProf != nil {
		type kv struct {
			k string
			v int
		}
		var l []kv
		for k, v := range stepProf {
			l = append(l, kv{k, v})
		}
		sort.Slice(l, func(i, j int) bool { return l[i].v > l[j].v })
		for i := 0; i < len(l) && i < 25; i++ {
			fmt.Fprintf(os.Stderr, "%8d %s\n", l[i].v, l[i].k)
		}
	}
	pprof.StopCPUProfile()
	os.Exit(rc)
}

func realMain() int {
	if len(os.Args) < 2 {
		fmt.Fprintln(os.Stderr, "usage: symgo check|run|replay|list ...")
		return 2
	}
	switch os.Args[1] {
	case "check":
		return cmdCheck(os.Args[2:])
	case "run":
		return cmdRun(os.Args[2:])
	case "replay":
		return cmdReplay(os.Args[2:])
	case "manifest":
		return cmdManifest()
	case "list":
		for _, id := range checkIDs() {
			fmt.Println(id)
		}
	default:
		fmt.Fprintln(os.Stderr, "unknown command", os.Args[1])
		return 2
	}
	return 0
}

func nworkers() int {
	if s := os.Getenv("VERIF_WORKERS"); s != "" {
		if n, err := strconv.Atoi(s); err == nil && n > 0 {
			return n
		}
	}
	return 16
}

func seed() int64 {
	if s := os.Getenv("VERIF_SEED"); s != "" {
		if n, err := strconv.ParseInt(s, 10, 64); err == nil {
			return n
		}
	}
	return 0
}

func cmdRun(args []string) int {
	if len(args) < 2 {
		fmt.Fprintln(os.Stderr, "usage: symgo run <moddir-rel> <pkgpath> <harness> [k=v ...]")
		return 2
	}
	spec := &harnessSpec{Pkg: args[1], Name: args[2], Params: map[string]int64{}}
	for _, kv := range args[3:] {
		k, v, _ := strings.Cut(kv, "=")
		n, _ := strconv.ParseInt(v, 10, 64)
		switch k {
		case "preempt":
			spec.Preemptions = int(n)
		case "maxpaths":
			spec.MaxPaths = int(n)
		case "maxsteps":
			spec.MaxSteps = int(n)
		case "timeout":
			spec.TimeoutS = int(n)
		case "override": // override=<function full name>:<harness function>
			from, to, _ := strings.Cut(v, ":")
			if spec.Overrides == nil {
				spec.Overrides = map[string]string{}
			}
			spec.Overrides[from] = to
		default:
			spec.Params[k] = n
		}
	}
	if strings.HasPrefix(spec.Name, "VerifC33_steps") || strings.HasPrefix(spec.Name, "VerifC32_roots") {
		if nm, nr, err := generateBuilderHarness(); err != nil {
			fmt.Fprintln(os.Stderr, "generate:", err)
			return 2
		} else {
			fmt.Printf("generated builder harness: %d methods, %d roots\n", nm, nr)
		}
	}
	if strings.HasPrefix(spec.Name, "VerifC41_sweep") {
		n, err := generatePipelineHarness()
		if err != nil {
			fmt.Fprintln(os.Stderr, "generate:", err)
			return 2
		}
		fmt.Printf("generated pipeline sweep: %d methods\n", n)
	}
	p, err := loadProgram(args[0], []string{spec.Pkg})
	if err != nil {
		fmt.Fprintln(os.Stderr, "load:", err)
		return 2
	}
	if len(spec.Overrides) > 0 {
		p.overrides = map[string]*ssaFunc{}
		for from, to := range spec.Overrides {
			f := p.pkgs[spec.Pkg].Func(to)
			if f == nil {
				fmt.Fprintln(os.Stderr, "override target not found:", to)
				return 2
			}
			p.overrides[from] = f
		}
	}
	res := explore(p, spec, nworkers(), seed())
	printResult(res)
	if len(res.violations) > 0 {
		if os.Getenv("SYMGO_TRACE") != "" {
			// re-execute the first violation with the scheduling trace switched on
			traceSched = true
			fmt.Fprintln(os.Stderr, "trace of the first violation:")
			exploreFixed(p, spec, res.violations[0])
			traceSched = false
		}
		return 1
	}
	return 0
}

func printResult(res *exploreResult) {
	fmt.Printf("harness %s: paths=%d %v decisions=%d steps=%d (max %d) asserts=%d (symbolic %d) queries=%d solver=%.2fs wall=%.2fs truncated=%v\n",
		res.spec.Name, res.paths, outcomeCounts(res.byOutcome), res.decisions, res.steps, res.maxSteps, res.asserts, res.symAsserts,
		res.solverQueries, res.solverTime.Seconds(), res.wall.Seconds(), res.truncated)
	for _, inc := range res.incomplete {
		fmt.Println("  incomplete:", inc)
	}
	for i, v := range res.violations {
		if i >= 5 {
			fmt.Printf("  ... %d more\n", len(res.violations)-5)
			break
		}
		fmt.Printf("  violation: %s\n    at %s\n    vector=%s final=%s\n", v.Msg, v.Stack, vecString(v.Vector), v.Confirmed)
		if len(v.Events) > 0 {
			fmt.Printf("    events=%v\n", v.Events)
		}
	}
	var labels []string
	for l := range res.reached {
		labels = append(labels, l)
	}
	sort.Strings(labels)
	if len(labels) > 0 {
		fmt.Println("  reached:", strings.Join(labels, ","))
	}
}

func outcomeCounts(m map[outcome]int) string {
	var parts []string
	for o := outOK; o <= outUnknown; o++ {
		if m[o] > 0 {
			parts = append(parts, fmt.Sprintf("%s=%d", o, m[o]))
		}
	}
	return "[" + strings.Join(parts, " ") + "]"
}

func vecString(v []vecItem) string {
	b, _ := json.Marshal(v)
	s := string(b)
	if len(s) > 400 {
		s = s[:400] + "..."
	}
	return s
}

// ---- check ----

type knownFinding struct {
	Property string `json:"property"`
	Harness  string `json:"harness"`
	Match    string `json:"match"` // substring of the violation signature
	What     string `json:"what"`
	Status   string `json:"status"` // "known" or "fixed"
	Commit   string `json:"commit,omitempty"`
}

func loadKnown() []knownFinding {
	var kf struct {
		Findings []knownFinding `json:"findings"`
	}
	b, err := os.ReadFile(filepath.Join(verifDir, "known_findings.json"))
	if err != nil {
		return nil
	}
	if err := json.Unmarshal(b, &kf); err != nil {
		fmt.Fprintln(os.Stderr, "known_findings.json:", err)
		return nil
	}
	return kf.Findings
}

func cmdCheck(args []string) int {
	if len(args) < 1 {
		fmt.Fprintln(os.Stderr, "usage: symgo check <ID> [--tier quick|thorough]")
		return 2
	}
	id := args[0]
	tier := os.Getenv("VERIF_TIER")
	for i := 1; i < len(args); i++ {
		if args[i] == "--tier" && i+1 < len(args) {
			tier = args[i+1]
			i++
		}
	}
	if tier == "" {
		tier = "quick"
	}
	def, ok := checks[id]
	if !ok {
		fmt.Fprintln(os.Stderr, "no such check:", id)
		return 2
	}
	t0 := time.Now()
	specs := def.specs(tier)
	// group by module dir
	var results []*exploreResult
	var loadErr error
	progs := map[string]*program{}
	for _, hs := range specs {
		if hs.spec.Gen == "builders" && !hasBuilderOverlay() {
			nm, nr, err := generateBuilderHarness()
			if err != nil {
				loadErr = err
				break
			}
			fmt.Printf("generated builder harness: %d methods, %d roots\n", nm, nr)
		}
		if hs.spec.Gen == "pipeline" && extraOverlay[genPipelinePath()] == nil {
			n, err := generatePipelineHarness()
			if err != nil {
				loadErr = err
				break
			}
			fmt.Printf("generated pipeline sweep: %d methods\n", n)
		}
	}
	for _, hs := range specs {
		if loadErr != nil {
			break
		}
		key := hs.dir
		p, ok := progs[key]
		if !ok {
			var pkgs []string
			seen := map[string]bool{}
			for _, h2 := range specs {
				if h2.dir == key && !seen[h2.spec.Pkg] {
					seen[h2.spec.Pkg] = true
					pkgs = append(pkgs, h2.spec.Pkg)
				}
			}
			var err error
			p, err = loadProgram(key, pkgs)
			if err != nil {
				loadErr = err
				break
			}
			progs[key] = p
		}
		if len(hs.spec.Overrides) > 0 {
			p.overrides = map[string]*ssaFunc{}
			for from, to := range hs.spec.Overrides {
				f := p.pkgs[hs.spec.Pkg].Func(to)
				if f == nil {
					loadErr = fmt.Errorf("override target %s not found", to)
					break
				}
				p.overrides[from] = f
			}
		} else {
			p.overrides = nil
		}
		res := explore(p, hs.spec, nworkers(), seed())
		printResult(res)
		results = append(results, res)
	}
	if loadErr != nil {
		fmt.Println("INCONCLUSIVE: cannot load/build /repo with the harness overlay:", loadErr)
		writeEvidence(id, tier, def, results, nil, time.Since(t0), []string{"load error: " + loadErr.Error()})
		return 2
	}
	return conclude(id, tier, def, results, time.Since(t0))
}

func conclude(id, tier string, def *checkDef, results []*exploreResult, wall time.Duration) int {
	known := loadKnown()
	var problems []string
	var newViol []*violationRec
	knownHit := map[string]bool{}
	for _, r := range results {
		if r.spec.ExpectViolation {
			if len(r.violations) == 0 {
				problems = append(problems, fmt.Sprintf("vacuity guard %s: the reachability twin was NOT violated", r.spec.Name))
			}
			continue
		}
		for _, v := range r.violations {
			v.spec = r.spec
			matched := false
			for _, k := range known {
				if k.Property == id && k.Status == "known" && (k.Harness == "" || k.Harness == v.Harness) && strings.Contains(v.Sig, k.Match) {
					matched = true
					knownHit[k.What] = true
				}
			}
			if !matched {
				newViol = append(newViol, v)
			}
		}
		for _, w := range r.spec.Witnesses {
			if !r.reached[w] {
				problems = append(problems, fmt.Sprintf("harness %s: witness %q not reached (vacuous?)", r.spec.Name, w))
			}
		}
		if r.truncated {
			problems = append(problems, fmt.Sprintf("harness %s: exploration truncated (path budget/timeout) after %d paths", r.spec.Name, r.paths))
		}
		for _, inc := range r.incomplete {
			problems = append(problems, fmt.Sprintf("harness %s: %s", r.spec.Name, inc))
		}
		if r.paths == 0 {
			problems = append(problems, fmt.Sprintf("harness %s: no path explored", r.spec.Name))
		}
	}
	// replay gate for new violations
	var reported []*violationRec
	replayDir := filepath.Join(verifDir, "replays", id)
	for _, v := range newViol {
		dup := false
		for _, o := range reported {
			if o.Sig == v.Sig {
				dup = true
			}
		}
		if dup {
			continue
		}
		reported = append(reported, v)
	}
	exit := 0
	var replayNotes []string
	for i, v := range reported {
		os.MkdirAll(replayDir, 0o755)
		path := filepath.Join(replayDir, fmt.Sprintf("%s_%d.json", v.Harness, i))
		rec := replayFile{Property: id, Tier: tier, Violation: v, Dir: def.dirOf(v.Harness), Pkg: def.pkgOf(v.Harness), Params: v.spec.Params}
		b, _ := json.MarshalIndent(rec, "", " ")
		os.WriteFile(path, b, 0o644)
		kind, ok, note := replayNative(&rec)
		replayNotes = append(replayNotes, fmt.Sprintf("%s: %s (%s)", v.Harness, kind, note))
		if ok {
			fmt.Printf("VIOLATION property=%s replay=%s\n", id, path)
			fmt.Printf("  %s\n  at %s\n  replay: %s %s\n", v.Msg, v.Stack, kind, note)
			exit = 1
		} else {
			problems = append(problems, fmt.Sprintf("counterexample of %s did not reproduce natively (%s): %s — encoding or stub suspected; %s", v.Harness, note, v.Msg, path))
		}
	}
	var kh []string
	for w := range knownHit {
		kh = append(kh, w)
	}
	sort.Strings(kh)
	for _, w := range kh {
		fmt.Printf("KNOWN-FINDING: property=%s %s\n", id, w)
	}
	writeEvidence(id, tier, def, results, reported, wall, append(problems, replayNotes...))
	if exit == 1 {
		return 1
	}
	if len(problems) > 0 {
		for _, p := range problems {
			fmt.Println("INCONCLUSIVE:", p)
		}
		return 2
	}
	fmt.Printf("OK property=%s tier=%s: every obligation discharged within the stated bounds\n", id, tier)
	return 0
}

// ---- evidence ----

func writeEvidence(id, tier string, def *checkDef, results []*exploreResult, viol []*violationRec, wall time.Duration, notes []string) {
	paths, decisions, asserts, symAsserts, queries := 0, 0, 0, 0, 0
	var solverT float64
	funcs := map[string]int{}
	intr := map[string]int{}
	overrides := map[string]int{}
	var samples []any
	var harnesses []map[string]any
	incomplete := 0
	exhaustive := true
	nontrivial := 0
	replayed := 0
	for _, r := range results {
		paths += r.paths
		decisions += r.decisions
		asserts += r.asserts
		symAsserts += r.symAsserts
		queries += r.solverQueries
		solverT += r.solverTime.Seconds()
		for f, n := range r.funcs {
			if strings.Contains(f, "verif") || strings.Contains(f, "Verif") {
				continue
			}
			funcs[f] += n
		}
		for f, n := range r.intrinsics {
			intr[f] += n
		}
		for f, n := range r.overrides {
			overrides[f] += n
		}
		inc := r.byOutcome[outBound] + r.byOutcome[outUnsupported] + r.byOutcome[outUnknown]
		incomplete += inc
		if r.truncated || inc > 0 {
			exhaustive = false
		}
		nontrivial += r.byOutcome[outOK] + r.byOutcome[outViolation]
		for i, s := range r.samples {
			item := map[string]any{"harness": r.spec.Name, "inputs": s}
			if i < len(r.sampleEvents) && len(r.sampleEvents[i]) > 0 {
				item["events"] = r.sampleEvents[i]
			}
			samples = append(samples, item)
		}
		var labels []string
		for l := range r.reached {
			labels = append(labels, l)
		}
		sort.Strings(labels)
		harnesses = append(harnesses, map[string]any{
			"name": r.spec.Name, "package": r.spec.Pkg, "paths": r.paths, "outcomes": outcomeCounts(r.byOutcome),
			"decisions": r.decisions, "ssa_steps": r.steps, "max_steps_on_a_path": r.maxSteps, "step_bound": r.spec.MaxSteps,
			"params": r.spec.Params, "context_bound": r.spec.Preemptions, "witnesses_reached": labels,
			"obligations": r.asserts, "solver_queries": r.solverQueries, "solver_time_s": round3(r.solverTime.Seconds()),
			"wall_s": round3(r.wall.Seconds()), "truncated": r.truncated, "incomplete": r.incomplete,
			"expect_violation_twin": r.spec.ExpectViolation, "float_havoc_ops": r.havocs,
			"second_solver_recheck": map[string]any{"solver": "cvc5 1.0 (one-shot, QF_BV, 10 s)", "sampled_queries": r.diffSampled, "agreed": r.diffAgreed, "second_solver_inconclusive": r.diffOther, "disagreed": r.diffBad},
		})
	}
	for _, v := range viol {
		samples = append(samples, map[string]any{"harness": v.Harness, "violation": v.Msg, "inputs": v.Vector})
		replayed++
	}
	if len(samples) == 0 {
		samples = append(samples, map[string]any{"note": "no satisfying sample recorded (all paths concrete)"})
	}
	var fl []string
	for f, n := range funcs {
		fl = append(fl, fmt.Sprintf("%s ×%d", f, n))
	}
	sort.Strings(fl)
	var il []string
	for f := range intr {
		il = append(il, f)
	}
	sort.Strings(il)
	trusted := append([]string{"golang.org/x/tools/go/ssa v0.50.0 (translation of /repo to SSA)", "symgo interpreter + term simplifier", "z3 5.1.0 (z3-new; one-shot z3 4.8.12 fallback on unknown); cvc5 1.0 re-checks a sample of the queries"}, def.Trusted...)
	for _, f := range il {
		trusted = append(trusted, "intrinsic: "+f)
	}
	var ol []string
	for f := range overrides {
		ol = append(ol, f)
	}
	sort.Strings(ol)
	ev := map[string]any{
		"property_id": id,
		"tier":        tier,
		"seed":        seed(),
		"level":       def.Level,
		"wall_s":      round3(wall.Seconds()),
		"violations":  len(viol),
		"assumptions": def.Assumptions,
		"coverage": map[string]any{
			"explanation":                   def.Explanation,
			"technique":                     "bounded symbolic execution of go/ssa (regenerated from /repo on this run) + SMT (z3-new -in, QF_BV); every feasible path within the bounds is explored, each assertion/panic site is a solver query",
			"states":                        max(paths, 1),
			"transitions":                   max(decisions, 1),
			"traces_validated_against_impl": replayed,
			"evaluations":                   max(paths, 1),
			"distinct_nontrivial":           nontrivial,
			"rule":                          "one evaluation = one feasible path (distinct decision vector) through the harness and the real code; non-trivial = the path ran to its end (ok or violation), i.e. excluding pruned-infeasible and bound/unsupported paths; distinct by construction (decision vectors differ)",
			"samples":                       samples,
			"obligations":                   asserts,
			"discharged":                    asserts - len(viol),
			"symbolic_obligations":          symAsserts,
			"checker_cmd":                   "bin/symgo check " + id + " --tier " + tier,
			"trusted_base":                  trusted,
			"functions_encoded":             fl,
			"overrides":                     ol,
			"harnesses":                     harnesses,
			"bounds":                        def.Bounds[tier],
			"outside_the_claim":             def.Outside,
			"solver":                        map[string]any{"name": "z3 5.1.0 (z3-new), fallback z3 4.8.12; cvc5 1.0 sampling", "queries": queries, "time_s": round3(solverT)},
			"incomplete_paths":              incomplete,
			"exhaustive":                    exhaustive,
			"notes":                         notes,
		},
	}
	os.MkdirAll(filepath.Join(verifDir, "evidence"), 0o755)
	b, _ := json.MarshalIndent(ev, "", " ")
	os.WriteFile(filepath.Join(verifDir, "evidence", id+".json"), b, 0o644)
}

func round3(f float64) float64 { return float64(int64(f*1000+0.5)) / 1000 }
