package main

func hsd(pkg, name string, params map[string]int64, delays, maxPaths, timeoutS int, witnesses ...string) specRef {
	r := hsx(pkg, name, params, maxPaths, timeoutS, witnesses...)
	r.spec.Preemptions = delays
	return r
}

func init() {
	checks["C02"] = &checkDef{
		Level:       levelMC,
		Explanation: "Schedule-symbolic execution of the real ring (ring.go: per-slot mutex + two condition variables, atomic ticket counter) and flowBuffer (flowbuffer.go: three buffered channels) queues. P putter goroutines enqueue K commands each through the real PutOne/PutMulti and wait on the returned channel; one writer and one reader goroutine call NextWriteCmd/WaitForWrite and NextResultCh/FinishResult in the order _backgroundWrite/_backgroundRead do (the reader asks for a result slot only after the writer handed that command to the wire). sync.Mutex/Cond, atomics and channels are engine intrinsics on a controlled scheduler; every context switch at a visible operation is a decision of the path, explored exhaustively up to the delay bound (delay-bounded scheduling: deterministic round-robin successor, each deviation costs one delay). Oracle (ghost log): every enqueued id is handed to the writer exactly once; result slots come in the order the commands reached the wire; each putter receives its own id; nothing un-enqueued is handed out; a path ending with a putter parked while nothing can run is a HANG violation (lost wake-up / deadlock), also with more commands than slots. A solver lemma (VerifC02_index) shows for an arbitrary uint32 start index that the visited slot sequence depends only on the phase, also across the 2^32 counter wrap-around, so the runs (every phase, far from and right before the wrap) stand for every start index.",
		Assumptions: []string{"sequentially consistent memory; context switches only at visible operations (mutex, cond, atomic, channel, go, exit)", "one writer and one reader goroutine (the queue's documented contract)"},
		Trusted:     []string{"engine scheduler and sync/atomic/channel intrinsics"},
		Outside:     []string{"schedules needing more than D delays", "more than P putters / K puts each", "weak-memory effects"},
		Bounds: map[string]any{
			"quick":    "2 slots; P = 2 putters × K = 2 puts, PutOne and PutMulti, delay bound D = 2 (ring) / 3 (flow buffer); P = 3 concurrent putters × 1 put (more callers than slots) D = 2",
			"thorough": "ring D = 3 with 2 slots, D = 2 with 4 slots and P = 3; flow buffer D = 4",
		},
		specs: func(tier string) []specRef {
			s := []specRef{
				hsx(cmdsPkgRoot(), "VerifC02_index", nil, 10, 600, "lemma"),
				hsd(rootPkg, "VerifC02_ring", P{"putters": 2, "puts": 2, "multi": 1, "factor": 1}, q(tier, 2, 3), 3000000, 3000, "done", "drained"),
				hsd(rootPkg, "VerifC02_flow", P{"putters": 2, "puts": 2, "multi": 1, "factor": 1}, q(tier, 3, 4), 3000000, 3000, "done", "drained"),
				// more concurrent callers than slots: a putter has to wait for an occupied slot
				hsd(rootPkg, "VerifC02_ring", P{"putters": 3, "puts": 1, "multi": 0, "factor": 1}, q(tier, 2, 3), 3000000, 3000, "done", "drained"),
				hsd(rootPkg, "VerifC02_flow", P{"putters": 3, "puts": 1, "multi": 0, "factor": 1}, q(tier, 2, 3), 3000000, 3000, "done", "drained"),
			}
			// the queue inside the real pipe (real writer with its flush policy, real reader that keeps a
			// slot locked while it collects a batch's replies): the ring wraps onto the slot being read
			s = append(s, hsd(rootPkg, "VerifC02_wrap", nil, 2, 3000000, 3000, "batch", "single"))
			if tier == "thorough" {
				s = append(s, hsd(rootPkg, "VerifC02_ring", P{"putters": 3, "puts": 2, "multi": 1, "factor": 2}, 2, 3000000, 3000, "done", "drained"))
			}
			return s
		},
	}
}

func cmdsPkgRoot() string { return rootPkg }
