package main

// Intrinsics, part 2: environment stubs added after round 1.

import (
	"crypto/sha1"
	"go/types"

	"golang.org/x/tools/go/ssa"
)

// newErrorString builds an *errors.errorString value (what errors.New returns).
func (m *machine) newErrorString(msg string) value {
	errorsPkg := m.p.pkgs["errors"]
	et := errorsPkg.Pkg.Scope().Lookup("errorString").Type()
	st := zero(et).(structure)
	st[0] = msg
	o := m.newObject(st, "errors.errorString")
	return iface{t: types.NewPointer(et), v: ptr{o: o, c: &o.v}}
}

func init() {
	// encoding/json is reflection-driven and not executed: Unmarshal leaves the destination
	// untouched and returns nil or an error (environment decision); Marshal returns an opaque
	// constant. Only control flow around these calls is claimed, never their result.
	reg("encoding/json.Unmarshal", func(m *machine, fr *frame, fn *ssa.Function, a []value) (value, bool) {
		if m.choose(2, "json.Unmarshal") == 0 {
			return iface{}, true
		}
		return m.newErrorString("json: stub error"), true
	})
	reg("encoding/json.Marshal", func(m *machine, fr *frame, fn *ssa.Function, a []value) (value, bool) {
		return tuple{m.sliceFromValues(strBytes("\"<json>\"")), iface{}}, true
	})
}

func init() {
	// unique.Make: canonical handle per distinct (concrete) value; Handle[T] is struct{ value *T }.
	reg("unique.Make", func(m *machine, fr *frame, fn *ssa.Function, a []value) (value, bool) {
		key := "unique:" + fn.Signature.Results().At(0).Type().String() + ":" + m.formatValue(fr, a[0], 'v')
		tab, _ := m.hostState["unique"].(map[string]*object)
		if tab == nil {
			tab = map[string]*object{}
			m.hostState["unique"] = tab
		}
		o, ok := tab[key]
		if !ok {
			o = m.newObject(copyVal(a[0]), "unique value")
			tab[key] = o
		}
		return structure{ptr{o: o, c: &o.v}}, true
	})
}

func init() {
	// crypto/sha1.Sum: assembly-backed; computed by the host on concrete input.
	reg("crypto/sha1.Sum", func(m *machine, fr *frame, fn *ssa.Function, a []value) (value, bool) {
		s, ok := a[0].(slice)
		if !ok {
			panic(unsupported("sha1.Sum argument"))
		}
		b := make([]byte, 0, s.len)
		for _, e := range s.elems() {
			c, ok := e.(int64)
			if !ok {
				panic(unsupported("sha1.Sum of symbolic bytes"))
			}
			b = append(b, byte(c))
		}
		sum := sha1.Sum(b)
		out := make(array, len(sum))
		for i, c := range sum {
			out[i] = int64(c)
		}
		return out, true
	})
}

func init() {
	// randomness: an arbitrary admissible value. Shuffle keeps the order (any order is admissible
	// and the callers do not depend on it); FastRand(n) is a decision over [0,n) for small n.
	reg("math/rand.Shuffle", nop)
	reg("math/rand/v2.Shuffle", nop)
	reg("github.com/redis/rueidis/internal/util.FastRand", func(m *machine, fr *frame, fn *ssa.Function, a []value) (value, bool) {
		n := m.concInt(a[0], "FastRand")
		if n <= 1 {
			return int64(0), true
		}
		if n <= 4 {
			return int64(m.choose(int(n), "FastRand")), true
		}
		return int64(0), true
	})
}

func init() {
	randN := func(m *machine, fr *frame, fn *ssa.Function, a []value) (value, bool) {
		n := m.concInt(a[0], "rand.IntN")
		if n <= 1 {
			return int64(0), true
		}
		if n <= 4 {
			return int64(m.choose(int(n), "rand.IntN")), true
		}
		return int64(0), true
	}
	reg("math/rand/v2.IntN", randN)
	reg("math/rand.Intn", randN)
}

func init() {
	// identifiers drawn from the global source: any value is admissible; a fixed one is used
	// (a different one per call, so that two draws are distinguishable; deterministic per path)
	fixed := func(m *machine, fr *frame, fn *ssa.Function, a []value) (value, bool) {
		m.randDraws++
		return int64(0x5eed) + int64(m.randDraws), true
	}
	reg("math/rand.Uint64", fixed)
	reg("math/rand.Uint32", fixed)
	reg("math/rand/v2.Uint64", fixed)
	reg("math/rand/v2.Uint32", fixed)
}
