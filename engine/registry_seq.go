package main

// Registered checks, part 2: sequential data kernels of the root package.

func init() {
	checks["C45"] = &checkDef{
		Level:       levelOther,
		Explanation: "Bounded symbolic execution of the real VectorString32/64, ToVector32/64 and BinaryString (binary.go, unsafe.String/unsafe.Slice views executed on the engine's fat pointers). Every float element is a symbolic 32/64-bit pattern (so NaN payloads, signed zeros and subnormals are all covered by one path); the solver decides bit-for-bit equality of the round-tripped pattern and byte identity of BinaryString. The harness additionally pins the byte order: byte k of the string equals bits 8k..8k+7 of the element (little-endian, the documented wire layout).",
		Assumptions: []string{"vector lengths are concrete per path (forked over 0..max_len); element bit patterns are unconstrained"},
		Outside:     []string{"vectors longer than the bound (the conversion is a reinterpretation of the backing array, uniform in the length)", "JSON(x): encoding/json is reflection-driven and not executed by the engine; that clause of the statement is not claimed"},
		Bounds: map[string]any{
			"quick":    "vectors of 0..3 elements, byte strings of 0..6 bytes",
			"thorough": "vectors of 0..8 elements, byte strings of 0..16 bytes",
		},
		specs: func(tier string) []specRef {
			return []specRef{
				hs(rootPkg, "VerifC45_vector32", P{"max_len": q(tier, int64(3), 8)}, "v32"),
				hs(rootPkg, "VerifC45_vector64", P{"max_len": q(tier, int64(3), 8)}, "v64"),
				hs(rootPkg, "VerifC45_binary", P{"max_bytes": q(tier, int64(6), 16)}, "bin"),
			}
		},
	}
	checks["C17"] = &checkDef{
		Level:       levelOther,
		Explanation: "Bounded symbolic execution of the real RedisMessage.CacheSize, CacheMarshal (nil and pre-sized buffer), CacheUnmarshalView/unmarshalView (message.go) on model trees drawn by forking over type tags (scalar, array, set, map) with symbolic string bytes, symbolic int64 payloads and a symbolic 7-byte expiry. Oracle: len(out)==CacheSize, the unmarshalled tree equals the model (type, payload, children, expiry), it is marked as cache hit, and for a symbolic truncation point t in [0,len) unmarshal(out[:t]) returns ErrCacheUnmarshal (any Go panic is a violation).",
		Assumptions: []string{"string lengths are concrete per path (from a small set), contents symbolic"},
		Outside:     []string{"trees deeper/wider than the bound (serialisation is structurally recursive; no inductive argument is claimed)", "strings longer than 5 bytes"},
		Bounds: map[string]any{
			"quick":    "depth ≤ 1, width ≤ 2, string lengths {0,2}, all 7 ttl bytes symbolic, every truncation point (symbolic)",
			"thorough": "depth ≤ 1, width ≤ 3, string lengths {0,2,5}",
		},
		specs: func(tier string) []specRef {
			return []specRef{
				hs(rootPkg, "VerifC17_roundtrip", P{"depth": 1, "width": q(tier, int64(2), 3), "strlens": q(tier, int64(2), 3)}, "roundtrip", "truncated"),
			}
		},
	}
}

// hsx: like hs with path budget and timeout.
func hsx(pkg, name string, params map[string]int64, maxPaths, timeoutS int, witnesses ...string) specRef {
	r := hs(pkg, name, params, witnesses...)
	r.spec.MaxPaths = maxPaths
	r.spec.TimeoutS = timeoutS
	return r
}

func init() {
	checks["C12"] = &checkDef{
		Level:       levelOther,
		Explanation: "Bounded symbolic execution of the real readNextMessage and streamTo (resp.go) over a bufio.Reader fed by a chunking io.Reader. A harness-side generator draws a well-formed frame by forking over every RESP2/RESP3 form (blob/verbatim/blob-error strings with arbitrary binary payload incl. CR/LF, simple strings/errors/doubles/big numbers, the +OK fast path, integers with sign and symbolic digits, the three null forms, booleans, streamed strings, empty/declared/streamed aggregates of all four aggregate types, attribute frames) and emits both the wire bytes and the expected value tree with independent arithmetic. Oracle: structural equality of the decoded tree (type, payload, children, attrs), exact byte consumption (a second frame follows and must decode independently), for the chunkings: everything at once, one byte per Read, one split point; bufio sizes 32 (the smallest read buffer the client accepts) and 4096. streamTo: written bytes equal the payload a normal read returns, nil/error replies surface as errors, pushes are skipped.",
		Assumptions: []string{"payload lengths are concrete per path, payload bytes symbolic; integer digits symbolic within '0'..'9'", "nested values come from a reduced menu (blob, 1-digit integer, two null forms, +OK, double, nested aggregate); non-first children from a two-kind menu"},
		Outside:     []string{"trees deeper than 2 or wider than 2 (the decoder is structurally recursive; no inductive argument is claimed)", "integers of more than 18 digits (may exceed int64: not well-formed)", "more than one split point per frame (quick: 4 split positions; thorough: every position)"},
		Bounds: map[string]any{
			"quick":    "depth ≤ 1, width ≤ 2, payload lengths {0,2}, digits {1,3}; chunkings: all-at-once, byte-at-a-time, split at {1,2,len/2,len-1}; blob strings of 2^20-1, 2^20, 2^20+1, 2^20+1000, 2^21+7 bytes (5 symbolic marker bytes) split before/at/after the 1 MiB pre-allocation cap, near the end, and in 64 KiB segments",
			"thorough": "depth ≤ 1, width ≤ 2, payload lengths {0,1,2,5}, digits {1,2,3,18}; every single split position",
		},
		specs: func(tier string) []specRef {
			return []specRef{
				hsx(rootPkg, "VerifC12_decode", P{"depth": 1, "long": q(tier, int64(0), 1), "all_splits": q(tier, int64(0), 1)}, 2000000, q(tier, 600, 3000), "decoded", "attrs", "nested"),
				hsx(rootPkg, "VerifC12_stream", P{"long": 0, "all_splits": q(tier, int64(0), 1)}, 2000000, q(tier, 600, 3000), "streamstr", "streamint", "pushskip"),
				{dir: "", spec: &harnessSpec{Pkg: rootPkg, Name: "VerifC12_bigblob", MaxSteps: 200000000, MaxPaths: 1000, TimeoutS: 1800, Witnesses: []string{"big"}}},
			}
		},
	}
	checks["C13"] = &checkDef{
		Level:       levelOther,
		Explanation: "Bounded symbolic execution of the real readNextMessage and streamTo (resp.go) on (a) N fully symbolic bytes followed by EOF — every one of the 256^N byte strings is covered by forking on each comparison the decoder makes — and (b) the structured family <header><optional '-'><k symbolic digits>CRLF<0..2 null frames> for every length-carrying header ($ ! = * ~ > % | and the streamed-string chunk header), k ∈ {1,2,7,10,19,20} so that negative, wrapping, huge and tiny declared lengths are all included. Oracle: every path ends in a normal return (any Go panic — negative make, index, nil, slice bounds, strings.Builder.Grow — is a violation) and no single allocation request exceeds 1 MiB while at most a few dozen bytes have been received (engine allocation oracle on make/Grow).",
		Assumptions: []string{"declared lengths in (6, 2^21] are excluded from family (b): they only differ in how much absent payload is waited for"},
		Outside:     []string{"fully symbolic inputs longer than N bytes", "allocation below 1 MiB per request is not judged"},
		Bounds: map[string]any{
			"quick":    "N = 4 fully symbolic bytes (readNextMessage and streamTo); family (b) with k ∈ {1,2,7,19} (19 digits reach 2^62..2^63, where doubling a map length wraps)",
			"thorough": "N = 5; family (b) with k ∈ {1,2,7,10,19,20}",
		},
		specs: func(tier string) []specRef {
			return []specRef{
				hsx(rootPkg, "VerifC13_bytes", P{"nbytes": q(tier, int64(4), 5), "alloc_is_violation": 1}, 2000000, q(tier, 600, 3000), "value", "error"),
				hsx(rootPkg, "VerifC13_stream", P{"nbytes": q(tier, int64(4), 5), "alloc_is_violation": 1}, 2000000, q(tier, 600, 3000), "value", "error"),
				hsx(rootPkg, "VerifC13_lengths", P{"n_digit_counts": q(tier, int64(4), 6), "alloc_is_violation": 1}, 2000000, q(tier, 600, 3000), "negative", "huge", "value"),
			}
		},
	}
	checks["C15"] = &checkDef{
		Level:       levelOther,
		Explanation: "Bounded symbolic execution of every RedisMessage accessor (To*/As*/DecodeJSON, the FT/GEO/stream/scan/pop helpers, DecodeSliceOfJSON), every RedisResult wrapper and every RedisError classifier (message.go, helper.go) on reply values drawn from the representation invariant of decoder output: a node is string-like, aggregate or scalar; within its class the type tag is a symbolic byte, integer payloads and string bytes are symbolic, aggregate children are lazily initialised (materialised by the engine at first access, so each accessor explores exactly the shapes it distinguishes). Error texts are symbolic strings and the structured family PREFIX[ sp token]* for MOVED/ASK/REDIRECT/TRYAGAIN/LOADING. Oracle: no Go panic on any path; a nil reply surfaces as Nil and an error reply as *RedisError from every error-reporting accessor; the basic typed accessors return a parse error (IsParseErr) on wrong-shaped replies; RedisResult wrappers return a transport error unchanged and otherwise agree with the message accessor.",
		Assumptions: []string{"maps have an even child count (the decoder rejects odd streamed maps since fix 2 of known_findings)", "encoding/json.Unmarshal is a stub returning nil or an error by decision (reflection is not executed)", "strconv.ParseFloat on symbolic text is a stub: fails, or succeeds with an unconstrained float (float havoc, DESIGN §2.9c)"},
		Outside:     []string{"shapes wider/deeper than the per-group bounds", "strings longer than 1 byte inside trees (error texts: up to 8 bytes)", "the structured helpers' errors on wrong shapes may be plain errors (not demanded to be parse errors: the statement's 'parse error' is checked for the basic typed accessors)"},
		Bounds: map[string]any{
			"quick":    "all 44 accessor groups on trees of depth 1 with ≤ 2 children; structured helpers on depth 2 (≤ 2 children, those ≤ 1); error texts ≤ 8 symbolic bytes / ≤ 3 tokens of ≤ 2 bytes",
			"thorough": "additionally: pop/FT helpers with ≤ 3 children, XREAD helpers on depth 4 (1,2,1,2 children per level)",
		},
		specs: func(tier string) []specRef {
			s := []specRef{
				hsx(rootPkg, "VerifC15_errtext", P{"max_text": 8}, 2000000, 600, "classified"),
				hsx(rootPkg, "VerifC15_results", nil, 2000000, 600, "delegated", "transporterr"),
				hsx(rootPkg, "VerifC15_lazy", P{"kids": 2}, 2000000, 900, "value", "nil", "rediserr", "parseerr"),
				hsx(rootPkg, "VerifC15_lazy", P{"kids": 21, "first_accessor": 15, "last_accessor": 34}, 2000000, 900, "value"),
			}
			if tier == "thorough" {
				s = append(s,
					hsx(rootPkg, "VerifC15_lazy", P{"kids": 3, "first_accessor": 23, "last_accessor": 27}, 3000000, 1800, "value"),
					hsx(rootPkg, "VerifC15_lazy", P{"kids": 1212, "first_accessor": 19, "last_accessor": 19}, 3000000, 1800, "value"),
					hsx(rootPkg, "VerifC15_lazy", P{"kids": 1212, "first_accessor": 22, "last_accessor": 22}, 3000000, 1800, "value"),
				)
			}
			return s
		},
	}
}
