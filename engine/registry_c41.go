package main

const compatPkg = "github.com/redis/rueidis/rueidiscompat"

func init() {
	checks["C41"] = &checkDef{
		Level:       levelOther,
		Explanation: "Execution of the real rueidiscompat Pipeline / TxPipeline (pipeline.go proxy, Exec, Discard, Len; tx.go TxPipeline.Exec) and the real Cmder.from decoders with a stub rueidis.Client. The queued program is a decision per position over 8 adapter commands with 8 different result types (Get, Incr, Set, SetNX, LRange, HGetAll, Do, IncrByFloat); the reply outcome of each position (typed value carrying the position as a marker, Redis error carrying the position, nil, transport error), whether commands were queued and discarded beforehand, and for transactions the EXEC outcome (array, nil = WATCH abort, error reply, connection failure) are decisions. Oracle: one DoMulti call whose commands are the queued ones in queue order (wrapped in MULTI … EXEC for transactions); Exec returns the very Cmders handed out at queue time, in order; each carries its own position's value/error; the returned error is the first error in queue order, TxFailedErr on abort; discarded commands are neither sent nor reported; Len is 0 after Exec/Discard. Sweep: the list of all Cmder-returning Pipeline methods (512 on this tree) is regenerated from the package's types on every run; each is queued once with simple concrete arguments (and, for variadic methods, also with the variadic part empty), followed by a marker INCR; oracle: exactly one command and one Cmder were registered (or the call was refused by panic/error leaving the queue consistent), and after Exec the first reply lands on the first Cmder and the second on the marker.",
		Assumptions: []string{"stub client (harness code); replies are fabricated with the repository's mock package"},
		Outside:     []string{"the argument encoders of the adapter commands (C41 is about queueing and result mapping; the sweep uses one or two concrete argument shapes per method)", "programs longer than the bound"},
		Bounds:      map[string]any{"quick": "programs of 1..3 commands", "thorough": "programs of 1..3 commands (4 commands: 3.7 million paths per harness, not run)"},
		specs: func(tier string) []specRef {
			a := hsx(compatPkg, "VerifC41_pipeline", P{"max_cmds": 3}, 5000000, 3000, "discard", "firsterr", "allok")
			a.dir = "rueidiscompat"
			b := hsx(compatPkg, "VerifC41_tx", P{"max_cmds": 3}, 5000000, 3000, "discard", "aborted", "failed", "executed", "execerr")
			b.dir = "rueidiscompat"
			c := hsx(compatPkg, "VerifC41_sweep", nil, 5000000, 3000, "queued")
			c.dir = "rueidiscompat"
			c.spec.Gen = "pipeline"
			return []specRef{a, b, c}
		},
	}
}
