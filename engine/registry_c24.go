package main

func init() {
	checks["C24"] = &checkDef{
		Level:       levelMC,
		Explanation: "Real pool.go (Acquire, Store, removeIdleConns, Close) with stub wires. (1) VerifC24_step, rely/guarantee step: the pool is put into an arbitrary state satisfying the accounting invariant size == idle + handed-out (cap 1..3, any split between idle list and wires that are out, idle wires arbitrarily broken or with an expired lifetime timer), then one operation runs: a non-blocking Acquire (incl. every goto-retry path: unusable idle wire, freshly dialled wire whose StopTimer fails), an Acquire with a done context followed by the Store its callers perform, Store of a healthy or broken counted wire, the idle cleaner with any minSize, Close followed by Acquire. Oracle: invariant re-established, 0 ≤ size ≤ BlockingPoolSize, no wire listed twice or both listed and out, every wire dropped from accounting is closed, an acquired wire is healthy, after Close only closed wires are handed out. Since the pre-state is arbitrary the step covers histories of any length. (2) VerifC24_sched: concurrent acquirers/returners under the delay-bounded scheduler: never two holders of one wire, never more than cap wires in use, everything comes back. (3) Cancellation: VerifC05_poolCancel / VerifC05_poolRetry — a waiter on an exhausted pool whose context is cancelled returns for every schedule of waiter, canceller and the pool's own broadcast goroutine, also when it re-enters the wait loop after a failed dial; a parked waiter at the end of a path is a HANG violation.",
		Assumptions: []string{"callers Store exactly what Acquire returned (established by reading mux.blocking/blockingMulti, dedicated release paths)", "a dialled wire fails StopTimer at most once per Acquire (bounds the retry loop)", "sequentially consistent memory, switches at visible operations only"},
		Trusted:     []string{"engine scheduler, sync.Cond/Mutex intrinsics, real context package executed as code"},
		Outside:     []string{"cap > 3; schedules needing more than D delays", "the idle-cleanup timer racing with Acquire (timer transitions are explored only in thorough)", "DoStream/DoMultiStream callers (C29)"},
		Bounds:      map[string]any{"quick": "cap ≤ 3 (step); 2 acquirers cap 1, D = 3; cancellation D = 3", "thorough": "3 acquirers cap 1..2, D = 4; cancellation D = 5"},
		specs: func(tier string) []specRef {
			s := []specRef{
				hsx(rootPkg, "VerifC24_step", P{"max_cap": 3}, 3000000, 1800, "acquired", "cancelled", "stored", "cleaned", "closed", "dialfailed"),
				hsd(rootPkg, "VerifC24_sched", P{"cap": 1, "acquirers": q(tier, int64(2), 3)}, q(tier, 3, 4), 3000000, 1800, "served"),
				hsd(rootPkg, "VerifC05_poolCancel", nil, q(tier, 3, 5), 3000000, 1800, "returned"),
				hsd(rootPkg, "VerifC05_poolRetry", nil, q(tier, 3, 5), 3000000, 1800, "cancelled", "gotwire"),
				hsd(rootPkg, "VerifC05_poolTwoWaiters", nil, q(tier, 3, 4), 3000000, 3000, "cancelled", "gotwire"),
			}
			if tier == "thorough" {
				s = append(s, hsd(rootPkg, "VerifC24_sched", P{"cap": 2, "acquirers": 3}, 4, 3000000, 1800, "served"))
			}
			return s
		},
	}
}
