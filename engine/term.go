package main

// SMT terms: bit-vectors (w = 1..64) and booleans (w = 0). Constructors fold constants and do
// light syntactic simplification so that purely concrete data never reaches the solver.

import (
	"fmt"
	"strings"
)

type term struct {
	op   string // "const", "var", or an SMT-LIB operator name; "extract", "zext", "sext" carry p0/p1
	args []*term
	w    int    // 0 = Bool, else bit-vector width
	c    uint64 // value when op == "const" (bool: 0/1)
	name string // when op == "var"
	p0   int    // extract hi / extension amount
	p1   int    // extract lo
	id   int    // unique id within a term factory (used for solver-side definitions)
	sz   int    // dag size estimate
}

type termFactory struct {
	next  int
	cache map[string]*term
}

func newTermFactory() *termFactory { return &termFactory{cache: map[string]*term{}} }

func mask(w int) uint64 {
	if w >= 64 {
		return ^uint64(0)
	}
	return (uint64(1) << uint(w)) - 1
}

func (f *termFactory) mk(t *term) *term {
	var sb strings.Builder
	sb.WriteString(t.op)
	fmt.Fprintf(&sb, "/%d/%d/%d/%d/%s", t.w, t.c, t.p0, t.p1, t.name)
	for _, a := range t.args {
		fmt.Fprintf(&sb, ",%d", a.id)
	}
	k := sb.String()
	if o, ok := f.cache[k]; ok {
		return o
	}
	f.next++
	t.id = f.next
	t.sz = 1
	for _, a := range t.args {
		t.sz += a.sz
	}
	f.cache[k] = t
	return t
}

func (f *termFactory) bv(v uint64, w int) *term {
	return f.mk(&term{op: "const", w: w, c: v & mask(w)})
}
func (f *termFactory) boolc(b bool) *term {
	if b {
		return f.mk(&term{op: "const", w: 0, c: 1})
	}
	return f.mk(&term{op: "const", w: 0, c: 0})
}
func (f *termFactory) variable(name string, w int) *term {
	return f.mk(&term{op: "var", w: w, name: name})
}

func (t *term) isConst() bool { return t.op == "const" }
func (t *term) isTrue() bool  { return t.op == "const" && t.w == 0 && t.c == 1 }
func (t *term) isFalse() bool { return t.op == "const" && t.w == 0 && t.c == 0 }

func sext64(v uint64, w int) int64 {
	if w >= 64 {
		return int64(v)
	}
	sh := uint(64 - w)
	return int64(v<<sh) >> sh
}

// ---- boolean connectives ----

func (f *termFactory) not(a *term) *term {
	if a.isConst() {
		return f.boolc(a.c == 0)
	}
	if a.op == "not" {
		return a.args[0]
	}
	return f.mk(&term{op: "not", args: []*term{a}})
}

func (f *termFactory) and(a, b *term) *term {
	if a.isFalse() || b.isFalse() {
		return f.boolc(false)
	}
	if a.isTrue() {
		return b
	}
	if b.isTrue() {
		return a
	}
	if a == b {
		return a
	}
	return f.mk(&term{op: "and", args: []*term{a, b}})
}

func (f *termFactory) or(a, b *term) *term {
	if a.isTrue() || b.isTrue() {
		return f.boolc(true)
	}
	if a.isFalse() {
		return b
	}
	if b.isFalse() {
		return a
	}
	if a == b {
		return a
	}
	return f.mk(&term{op: "or", args: []*term{a, b}})
}

func (f *termFactory) ite(c, a, b *term) *term {
	if c.isTrue() {
		return a
	}
	if c.isFalse() {
		return b
	}
	if a == b {
		return a
	}
	if a.w == 0 {
		if a.isTrue() && b.isFalse() {
			return c
		}
		if a.isFalse() && b.isTrue() {
			return f.not(c)
		}
	}
	return f.mk(&term{op: "ite", args: []*term{c, a, b}, w: a.w})
}

// ---- comparisons ----

func (f *termFactory) eq(a, b *term) *term {
	if a == b {
		return f.boolc(true)
	}
	if a.isConst() && b.isConst() {
		return f.boolc(a.c == b.c)
	}
	if a.w != b.w {
		panic(fmt.Sprintf("eq: width mismatch %d vs %d", a.w, b.w))
	}
	if a.w == 0 {
		if a.isTrue() {
			return b
		}
		if b.isTrue() {
			return a
		}
		if a.isFalse() {
			return f.not(b)
		}
		if b.isFalse() {
			return f.not(a)
		}
	}
	// zext(x) == const where const doesn't fit ⇒ false; fits ⇒ compare narrow
	if a.isConst() {
		a, b = b, a
	}
	if b.isConst() && a.op == "zext" {
		in := a.args[0]
		if b.c&^mask(in.w) != 0 {
			return f.boolc(false)
		}
		return f.eq(in, f.bv(b.c, in.w))
	}
	if a.id > b.id {
		a, b = b, a
	}
	return f.mk(&term{op: "=", args: []*term{a, b}})
}

func (f *termFactory) cmp(op string, a, b *term) *term {
	if a.w != b.w {
		panic(fmt.Sprintf("cmp %s: width mismatch %d vs %d", op, a.w, b.w))
	}
	if a.isConst() && b.isConst() {
		var r bool
		switch op {
		case "bvult":
			r = a.c < b.c
		case "bvule":
			r = a.c <= b.c
		case "bvslt":
			r = sext64(a.c, a.w) < sext64(b.c, b.w)
		case "bvsle":
			r = sext64(a.c, a.w) <= sext64(b.c, b.w)
		}
		return f.boolc(r)
	}
	if a == b {
		return f.boolc(op == "bvule" || op == "bvsle")
	}
	// zero-extended value against a constant that exceeds its range
	if a.op == "zext" && b.isConst() && (op == "bvult" || op == "bvule") && b.c > mask(a.args[0].w) {
		return f.boolc(true)
	}
	if b.op == "zext" && a.isConst() && (op == "bvult" || op == "bvule") && a.c > mask(b.args[0].w) {
		return f.boolc(false)
	}
	// narrow zero-extended comparisons against constants
	if a.op == "zext" && b.isConst() && b.c&^mask(a.args[0].w) == 0 && (op == "bvult" || op == "bvule" || sext64(b.c, b.w) >= 0) {
		nop := op
		if op == "bvslt" {
			nop = "bvult"
		} else if op == "bvsle" {
			nop = "bvule"
		}
		return f.cmp(nop, a.args[0], f.bv(b.c, a.args[0].w))
	}
	if b.op == "zext" && a.isConst() && a.c&^mask(b.args[0].w) == 0 && (op == "bvult" || op == "bvule" || sext64(a.c, a.w) >= 0) {
		nop := op
		if op == "bvslt" {
			nop = "bvult"
		} else if op == "bvsle" {
			nop = "bvule"
		}
		return f.cmp(nop, f.bv(a.c, b.args[0].w), b.args[0])
	}
	return f.mk(&term{op: op, args: []*term{a, b}})
}

// ---- arithmetic ----

func (f *termFactory) bin(op string, a, b *term) *term {
	if a.w != b.w {
		panic(fmt.Sprintf("bin %s: width mismatch %d vs %d", op, a.w, b.w))
	}
	w := a.w
	m := mask(w)
	if a.isConst() && b.isConst() {
		x, y := a.c, b.c
		var r uint64
		switch op {
		case "bvadd":
			r = x + y
		case "bvsub":
			r = x - y
		case "bvmul":
			r = x * y
		case "bvand":
			r = x & y
		case "bvor":
			r = x | y
		case "bvxor":
			r = x ^ y
		case "bvshl":
			if y >= uint64(w) {
				r = 0
			} else {
				r = x << y
			}
		case "bvlshr":
			if y >= uint64(w) {
				r = 0
			} else {
				r = x >> y
			}
		case "bvashr":
			sx := sext64(x, w)
			if y >= uint64(w) {
				if sx < 0 {
					r = m
				} else {
					r = 0
				}
			} else {
				r = uint64(sx >> y)
			}
		case "bvudiv":
			if y == 0 {
				r = m
			} else {
				r = x / y
			}
		case "bvurem":
			if y == 0 {
				r = x
			} else {
				r = x % y
			}
		case "bvsdiv":
			sx, sy := sext64(x, w), sext64(y, w)
			if sy == 0 {
				if sx < 0 {
					r = 1
				} else {
					r = m
				}
			} else if sy == -1 {
				r = uint64(-sx)
			} else {
				r = uint64(sx / sy)
			}
		case "bvsrem":
			sx, sy := sext64(x, w), sext64(y, w)
			if sy == 0 {
				r = x
			} else if sy == -1 {
				r = 0
			} else {
				r = uint64(sx % sy)
			}
		default:
			panic("bin: unknown op " + op)
		}
		return f.bv(r, w)
	}
	// identities
	switch op {
	case "bvadd":
		if a.isConst() && a.c == 0 {
			return b
		}
		if b.isConst() && b.c == 0 {
			return a
		}
		// (x + c1) + c2
		if b.isConst() && a.op == "bvadd" && a.args[1].isConst() {
			return f.bin("bvadd", a.args[0], f.bv(a.args[1].c+b.c, w))
		}
		if a.isConst() {
			a, b = b, a
		}
	case "bvsub":
		if b.isConst() && b.c == 0 {
			return a
		}
		if a == b {
			return f.bv(0, w)
		}
		if b.isConst() {
			return f.bin("bvadd", a, f.bv(-b.c, w))
		}
	case "bvmul":
		if a.isConst() {
			a, b = b, a
		}
		if b.isConst() {
			if b.c == 0 {
				return f.bv(0, w)
			}
			if b.c == 1 {
				return a
			}
		}
	case "bvand":
		if a.isConst() {
			a, b = b, a
		}
		if b.isConst() {
			if b.c == 0 {
				return f.bv(0, w)
			}
			if b.c == m {
				return a
			}
			if a.op == "zext" && b.c&mask(a.args[0].w) == mask(a.args[0].w) {
				return a
			}
		}
		if a == b {
			return a
		}
	case "bvor":
		if a.isConst() {
			a, b = b, a
		}
		if b.isConst() {
			if b.c == 0 {
				return a
			}
			if b.c == m {
				return b
			}
		}
		if a == b {
			return a
		}
	case "bvxor":
		if a.isConst() {
			a, b = b, a
		}
		if b.isConst() && b.c == 0 {
			return a
		}
		if a == b {
			return f.bv(0, w)
		}
	case "bvshl", "bvlshr", "bvashr":
		if b.isConst() && b.c == 0 {
			return a
		}
		if a.isConst() && a.c == 0 {
			return a
		}
		if b.isConst() && b.c >= uint64(w) && op != "bvashr" {
			return f.bv(0, w)
		}
	case "bvudiv", "bvsdiv":
		if b.isConst() && b.c == 1 {
			return a
		}
	}
	return f.mk(&term{op: op, args: []*term{a, b}, w: w})
}

func (f *termFactory) neg(a *term) *term { return f.bin("bvsub", f.bv(0, a.w), a) }
func (f *termFactory) bvnot(a *term) *term {
	if a.isConst() {
		return f.bv(^a.c, a.w)
	}
	return f.mk(&term{op: "bvnot", args: []*term{a}, w: a.w})
}

func (f *termFactory) extract(a *term, hi, lo int) *term {
	w := hi - lo + 1
	if lo == 0 && w == a.w {
		return a
	}
	if a.isConst() {
		return f.bv(a.c>>uint(lo), w)
	}
	if (a.op == "zext" || a.op == "sext") && lo == 0 {
		in := a.args[0]
		if w == in.w {
			return in
		}
		if w < in.w {
			return f.extract(in, hi, 0)
		}
		if a.op == "zext" {
			return f.zext(in, w)
		}
		return f.sext(in, w)
	}
	if a.op == "concat" {
		lw := a.args[1].w
		if hi < lw {
			return f.extract(a.args[1], hi, lo)
		}
		if lo >= lw {
			return f.extract(a.args[0], hi-lw, lo-lw)
		}
	}
	return f.mk(&term{op: "extract", args: []*term{a}, w: w, p0: hi, p1: lo})
}

func (f *termFactory) zext(a *term, w int) *term {
	if w == a.w {
		return a
	}
	if w < a.w {
		return f.extract(a, w-1, 0)
	}
	if a.isConst() {
		return f.bv(a.c, w)
	}
	if a.op == "zext" {
		return f.zext(a.args[0], w)
	}
	return f.mk(&term{op: "zext", args: []*term{a}, w: w, p0: w - a.w})
}

func (f *termFactory) sext(a *term, w int) *term {
	if w == a.w {
		return a
	}
	if w < a.w {
		return f.extract(a, w-1, 0)
	}
	if a.isConst() {
		return f.bv(uint64(sext64(a.c, a.w)), w)
	}
	if a.op == "zext" {
		return f.zext(a.args[0], w)
	}
	return f.mk(&term{op: "sext", args: []*term{a}, w: w, p0: w - a.w})
}

func (f *termFactory) concat(hi, lo *term) *term {
	if hi.isConst() && lo.isConst() {
		return f.bv(hi.c<<uint(lo.w)|lo.c, hi.w+lo.w)
	}
	if hi.isConst() && hi.c == 0 {
		return f.zext(lo, hi.w+lo.w)
	}
	return f.mk(&term{op: "concat", args: []*term{hi, lo}, w: hi.w + lo.w})
}

// bool <-> bv1 helpers
func (f *termFactory) boolToBV(b *term, w int) *term {
	return f.ite(b, f.bv(1, w), f.bv(0, w))
}

// ---- printing ----

func sortOf(w int) string {
	if w == 0 {
		return "Bool"
	}
	return fmt.Sprintf("(_ BitVec %d)", w)
}

func constStr(t *term) string {
	if t.w == 0 {
		if t.c != 0 {
			return "true"
		}
		return "false"
	}
	if t.w%4 == 0 {
		return fmt.Sprintf("#x%0*x", t.w/4, t.c)
	}
	return fmt.Sprintf("#b%0*b", t.w, t.c)
}

// evalTerm evaluates t under a model (variable name -> value); missing variables are 0.
func evalTerm(t *term, model map[string]uint64, memo map[*term]uint64) uint64 {
	if v, ok := memo[t]; ok {
		return v
	}
	var r uint64
	b2u := func(b bool) uint64 {
		if b {
			return 1
		}
		return 0
	}
	ev := func(i int) uint64 { return evalTerm(t.args[i], model, memo) }
	switch t.op {
	case "const":
		r = t.c
	case "var":
		r = model[t.name] & mask(max(t.w, 1))
	case "not":
		r = b2u(ev(0) == 0)
	case "and":
		r = b2u(ev(0) != 0 && ev(1) != 0)
	case "or":
		r = b2u(ev(0) != 0 || ev(1) != 0)
	case "ite":
		if ev(0) != 0 {
			r = ev(1)
		} else {
			r = ev(2)
		}
	case "=":
		r = b2u(ev(0) == ev(1))
	case "bvult":
		r = b2u(ev(0) < ev(1))
	case "bvule":
		r = b2u(ev(0) <= ev(1))
	case "bvslt":
		w := t.args[0].w
		r = b2u(sext64(ev(0), w) < sext64(ev(1), w))
	case "bvsle":
		w := t.args[0].w
		r = b2u(sext64(ev(0), w) <= sext64(ev(1), w))
	case "bvnot":
		r = ^ev(0) & mask(t.w)
	case "extract":
		r = (ev(0) >> uint(t.p1)) & mask(t.w)
	case "zext":
		r = ev(0)
	case "sext":
		r = uint64(sext64(ev(0), t.args[0].w)) & mask(t.w)
	case "concat":
		r = (ev(0)<<uint(t.args[1].w) | ev(1)) & mask(t.w)
	default:
		f := newTermFactory()
		c := f.bin(t.op, f.bv(ev(0), t.w), f.bv(ev(1), t.w))
		r = c.c
	}
	memo[t] = r
	return r
}
