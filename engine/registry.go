package main

// Registry of checks: per property, the harness set per tier with its bounds, and the
// descriptive fields that go into the evidence file.

import "sort"

type specRef struct {
	dir  string // module directory relative to /repo ("" = root module)
	spec *harnessSpec
}

type checkDef struct {
	Level       string
	Explanation string
	Assumptions []string
	Trusted     []string
	Outside     []string
	Bounds      map[string]any
	specs       func(tier string) []specRef
}

var checks = map[string]*checkDef{}

func checkIDs() []string {
	var ids []string
	for id := range checks {
		ids = append(ids, id)
	}
	sort.Strings(ids)
	return ids
}

func (d *checkDef) find(tier, harness string) *specRef {
	for _, t := range []string{tier, "quick", "thorough"} {
		for _, s := range d.specs(t) {
			if s.spec.Name == harness {
				s := s
				return &s
			}
		}
	}
	return nil
}

func (d *checkDef) dirOf(h string) string {
	if s := d.find("quick", h); s != nil {
		return s.dir
	}
	return ""
}
func (d *checkDef) pkgOf(h string) string {
	if s := d.find("quick", h); s != nil {
		return s.spec.Pkg
	}
	return ""
}
func (d *checkDef) paramsOf(tier, h string) map[string]int64 {
	if s := d.find(tier, h); s != nil {
		return s.spec.Params
	}
	return nil
}

const rootPkg = "github.com/redis/rueidis"

// q picks the quick or thorough value.
func q[T any](tier string, quick, thorough T) T {
	if tier == "thorough" {
		return thorough
	}
	return quick
}

func root(name string, params map[string]int64) specRef {
	return specRef{dir: "", spec: &harnessSpec{Pkg: rootPkg, Name: name, Params: params}}
}
