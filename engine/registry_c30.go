package main

func init() {
	checks["C30"] = &checkDef{
		Level:       levelOther,
		Explanation: "Execution of the real Lua.Exec / ExecMulti (lua.go) for all six constructors × WithLoadSHA1 against a stub Client that logs every command and whose reply to each command is a decision: SCRIPT LOAD → sha | error; EVALSHA(_RO) → value | NOSCRIPT | other error | transport error; EVAL(_RO) → value | error; one argument is a symbolic string, and a second Exec follows the first so that the cached SHA state is exercised. Oracle per Exec: at most one EVALSHA* and at most one EVAL* are sent; EVAL* appears only for NoSha scripts or directly after an EVALSHA* answered NOSCRIPT; the _RO forms are used iff the script is read-only; SCRIPT LOAD is sent first, only with WithLoadSHA1 and only while the SHA is unknown, and a failed load fails the Exec without running anything; keys and arguments are passed through in order. ExecMulti returns len(multi) results, result i belonging to LuaExec i (1..3 execs, three script kinds).",
		Assumptions: []string{"crypto/sha1.Sum is computed by the host on the concrete script text", "stub client (harness code); client-level retries of retryable commands are C28's subject"},
		Outside:     []string{"concurrent Exec calls racing on the lazily loaded SHA (sha1Mu)", "cluster clients with several nodes in ExecMulti (SCRIPT LOAD fan-out)"},
		Bounds:      map[string]any{"quick": "6 constructors × load option × 2 consecutive Execs × all reply classes; ExecMulti with 1..3 execs", "thorough": "same"},
		specs: func(tier string) []specRef {
			return []specRef{
				hsx(rootPkg, "VerifC30_exec", nil, 1000000, 900, "ran", "fallback", "loadfailed"),
				hsx(rootPkg, "VerifC30_multi", nil, 1000000, 900, "multi"),
			}
		},
	}
}
