package main

func init() {
	c06 := func(id string) *checkDef {
		return &checkDef{
			Level:       levelMC,
			Explanation: "Real pipe (DoCache, DoMulti, _backgroundRead with its client-side-caching commit branches incl. the static-TTL branch, handlePush, the real lru store) over an in-memory connection with a scripted server that answers CLIENT CACHING / MULTI / PTTL / GET / EXEC transactions with the current value of the key (value = key:generation) and emits invalidation pushes — per key, for another key, multi-key, or a flush (null) — exactly where Redis does: before the next reply after another client's write. Scenario: read k (miss, served by the server), read k (hit), another client writes, a regular PING round trip (after which the push has been processed, wire order), read k again, then Close. Tracking mode (OPTIN vs opt-out/broadcast no-op), static TTL, server PTTL (-1 or 60 s), queue kind are chosen by decision; context switches are explored up to the delay bound. Oracle: the second read is a hit carrying exactly the reply the server sent for that command; after the key's invalidation (or a flush) the next read is not a hit and returns the server's current value; an invalidation of another key leaves the entry; the OnInvalidations callback log equals the pushes in wire order with nil for a flush and exactly one more nil when the connection is lost; after the connection is lost nothing is served from the cache. The store-level single-flight/invalidation protocol over arbitrary operation sequences is C09's check (lru and NewSimpleCacheAdapter).",
			Assumptions: []string{"Redis sends the invalidation of a tracked key after the tracked read's reply and before any later reply on that connection (server ordering, as documented)", "sequentially consistent memory; context switches only at visible operations"},
			Trusted:     []string{"scripted server and verifConn (harness code)", "engine scheduler and intrinsics"},
			Outside:     []string{"DoMultiCache and the MGET/JSON.MGET commit branch; adapter stores at pipe level (covered at store level by C09)", "schedules needing more than D delays", "SetOnInvalidations on dedicated clients and CLIENT TRACKING OFF on release (C25)"},
			Bounds:      map[string]any{"quick": "one key under test, 4 invalidation kinds × 2 tracking modes × static/non-static × 2 PTTLs × 2 queues; D = 1", "thorough": "D = 2 (path budget 600k; reported as reduced bound if exceeded)"},
			specs: func(tier string) []specRef {
				s := []specRef{hsd(rootPkg, "VerifC06_pipe", nil, q(tier, 1, 1), 5000000, 3400, "kept", "refetched", "done")}
				if id == "C06" { // the stores' invalidation step from arbitrary states (shared with C09)
					s = append(s, hsx(rootPkg, "VerifC09_stepLRU", P{"map_order": 1}, 5000000, 3400, "invalidate", "flush", "close"),
						hsx(rootPkg, "VerifC09_stepAdapter", P{"map_order": 1}, 5000000, 3400, "invalidate", "flush", "close"))
				}
				return s
			},
		}
	}
	checks["C06"] = c06("C06")
	checks["C27"] = c06("C27")
}
