package main

func init() {
	checks["C01"] = &checkDef{
		Level:       levelMC,
		Explanation: "Schedule-symbolic execution of the real pipe (pipe.go: Do, DoMulti, syncDo, background, _backgroundWrite, _backgroundRead, ring / flow-buffer queue, real bufio and RESP codec) over an in-memory connection. A tagged server goroutine parses each command and answers with a reply carrying the command's own id (so replies are not interchangeable) and may inject a Pub/Sub push frame before any reply. Two or three caller goroutines each issue Do or DoMulti(2) followed by a second Do; one caller uses a context cancelled by a separate goroutine at any point; the pipe starts in sync state (switching to pipelining when callers overlap) or already pipelining. Every context switch at a visible operation (mutex, cond, atomic, channel, connection read/write) is a decision, explored exhaustively within the delay bound. Oracle: every returned result carries the id of the caller's own command at that position, or is the context error for the caller whose context ended; the server never sees a command twice; no caller is left parked (HANG).",
		Assumptions: []string{"the connection delivers bytes in order; sequentially consistent memory; context switches only at visible operations"},
		Trusted:     []string{"engine scheduler and sync/atomic/channel intrinsics", "verifConn and the tagged server (harness code; the server decodes commands with the library's own decoder — framing is C12/C14)"},
		Outside:     []string{"schedules needing more than D delays; more than 3 callers", "DoCache/DoMultiCache/Receive sharing the connection (C06, C09, C26)", "the reader's Redis-6 inlined-push patch and the unsubscribe/PING trick"},
		Bounds:      map[string]any{"quick": "2 callers × (Do | DoMulti(2)) + Do, one cancellable; ring; D = 1", "thorough": "ring D = 2 (whole pipe), flow buffer D = 1; queue lemmas D = 3"},
		specs: func(tier string) []specRef {
			s := []specRef{hsd(rootPkg, "VerifC01_pipe", P{"callers": 2, "flow": 0}, q(tier, 1, 2), 5000000, 3400, "served", "aborted"),
				// the queue's share of the property (reply slot completed for exactly the enqueuing caller) at
				// a deeper delay bound than the whole pipe affords: three concurrent callers on two slots
				hsd(rootPkg, "VerifC02_ring", P{"putters": 3, "puts": 1, "multi": 0, "factor": 1}, q(tier, 2, 3), 3000000, 3000, "done", "drained"),
				hsd(rootPkg, "VerifC02_flow", P{"putters": 3, "puts": 1, "multi": 0, "factor": 1}, q(tier, 2, 3), 3000000, 3000, "done", "drained")}
			if tier == "thorough" {
				s = append(s, hsd(rootPkg, "VerifC01_pipe", P{"callers": 2, "flow": 1}, 1, 5000000, 3400, "served", "aborted"))
			} else {
				s = append(s, hsd(rootPkg, "VerifC01_pipe", P{"callers": 2, "flow": 1}, 1, 5000000, 3400, "served", "aborted"))
			}
			return s
		},
	}
	checks["C04"] = &checkDef{
		Level:       levelMC,
		Explanation: "Schedule-symbolic execution of the real pipe over an in-memory connection with fault injection: the connection fails with EOF / unexpected EOF / closed-pipe at the k-th I/O operation (k chosen), or the peer closes after serving some commands, or Close() is called by another goroutine at any scheduling point; two callers issue two Do calls each; the pipe starts in sync or pipelining state. Oracle: every call returns on every explored schedule (a caller parked at the end of a path while nothing can run is a HANG violation), a call that does not fail carries its own reply, and calls issued after Close fail.",
		Assumptions: []string{"sequentially consistent memory; context switches only at visible operations", "Close's 1 s grace timer fires only when nothing else can run"},
		Trusted:     []string{"engine scheduler and intrinsics", "verifConn fault injection"},
		Outside:     []string{"schedules needing more than D delays", "redial after failure in mux (later calls served by a fresh connection), cache waiters and blocking commands, the keep-alive ping path", "store Close paths (lru/adapter/subs)"},
		Bounds:      map[string]any{"quick": "fault op k ≤ 6, 2 callers × 2 calls, D = 1", "thorough": "D = 2"},
		specs: func(tier string) []specRef {
			return []specRef{
				hsd(rootPkg, "VerifC04_pipeFault", P{"callers": 2, "flow": 0, "max_fault_op": 6}, q(tier, 1, 2), 5000000, 3400, "served", "failed", "closed"),
				hsd(rootPkg, "VerifC04_pipeFault", P{"callers": 2, "flow": 1, "max_fault_op": 6}, 1, 5000000, 3400, "served", "failed", "closed"),
				// Receive and a pending command when the connection is lost or closed (shared with C26)
				hsd(rootPkg, "VerifC26_receive", P{"messages": 2, "flow": 0}, 1, 5000000, 3400, "closed", "cutoff"),
			}
		},
	}
}
