package main

func genSpec(pkg, name string, witnesses ...string) specRef {
	r := hsx(pkg, name, nil, 3000000, 3000, witnesses...)
	r.spec.Gen = "builders"
	return r
}

func init() {
	checks["C33"] = &checkDef{
		Level:       levelOther,
		Explanation: "Driver-generated: on every run the builder method family of /repo/internal/cmds is enumerated from the package's types (≈7.7k exported value-receiver methods on the generated builder types, 575 root constructors) and one harness case per method is synthesised and executed symbolically: the receiver carries an already built prefix [P0,P1], symbolic flag bits cf and no slot checking; string parameters are symbolic 1-byte strings (variadics get two), integers/floats/durations/times are concrete boundary samples. Step relation checked for every method: the result shares the receiver's command; the prefix is unchanged; the appended part is the method's own constant tokens followed by exactly the caller's arguments in call order, rendered as strings (base-10 integers incl. MinInt64 and MaxUint64, shortest round-trip floats, EX/EXAT in seconds and PX/PXAT in milliseconds); flags are preserved. By induction over builder paths this gives 'argv = command tokens followed by the caller's arguments in call order' for every completion path without enumerating paths. Methods with parameter types outside {string, int64, uint64, float64, bool, Duration, Time and their variadics} are counted as skipped in evidence.",
		Assumptions: []string{"numeric parameters are concrete samples (symbolic rendering of numbers through strconv is not explored); bool parameters are only checked for flag/prefix preservation"},
		Outside:     []string{"for the second half of the statement (a command is never modified or recycled before it has been completely written, also when the caller abandons the call) only one call shape is explored: a client-side-caching MGET through pipe.DoCache (the one place where the pipe builds and recycles its own pooled commands), abandoned by a context cancelled at any scheduling point within the delay budget, followed by another caller's command built from the same pool; the scripted server checks every command that arrives. PutCompleted calls in client.go/cluster.go/sentinel.go on the clean-reply path are not driven under cancellation", "root constructors' command names against the Redis command table (only upper-case constant tokens are required)", "slot bookkeeping of key parameters (C18)"},
		Bounds:      map[string]any{"quick": "every generated method once (one path per method)", "thorough": "same"},
		specs: func(tier string) []specRef {
			return []specRef{genSpec(cmdsPkg, "VerifC33_steps", "step"),
				// second sentence: abandoned calls (pipe-built client-side-caching MGET batch, pooled commands)
				hsd(rootPkg, "VerifC33_abandon", nil, 2, 3000000, 3000, "abandoned", "completed", "done")}
		},
	}
	checks["C32"] = &checkDef{
		Level:       levelOther,
		Explanation: "(a) Per-method step over the whole generated family (shared with C33, see there): with symbolic flag bits in the receiver, every non-root method returns the flags unchanged, except that a method appending a BLOCK token may add the blocking tag, and XREAD/XREADGROUP ... Block must add it; Build()/Cache() copy the flags. With (a), the tags of every completion path equal the tags its root constructor sets (plus BLOCK), by induction over the path. (b) Every root constructor (enumerated from the package types, 575) is executed and compared with a hand-written table drawn from the Redis command reference, independent of hack/cmds: ~40 side-effect-free reads must be marked read-only, ~55 commands with side effects must not be, the eight blocking list/sorted-set commands must be marked blocking, exactly the SUBSCRIBE/PSUBSCRIBE/SSUBSCRIBE roots carry the Pub/Sub tag and exactly the UNSUBSCRIBE family the unsubscribe tag, and — using the reachability graph of builder types computed from the method signatures — every root from which a Cache() method is reachable is marked read-only.",
		Assumptions: []string{"the hand-written read/write/blocking/PubSub table is part of the claim (engine side: harness/internal/cmds/C32_builders.go)"},
		Outside:     []string{"roots not in the table are only checked for the Pub/Sub tags and the Cache()-implies-read-only rule", "module commands' semantics (search, JSON, time series) beyond the few listed"},
		Bounds:      map[string]any{"quick": "all 575 roots; all ≈7.7k methods", "thorough": "same"},
		specs: func(tier string) []specRef {
			return []specRef{genSpec(cmdsPkg, "VerifC32_roots", "root", "cacheable", "read", "write", "blocking", "pubsub"), genSpec(cmdsPkg, "VerifC33_steps", "step")}
		},
	}
}
