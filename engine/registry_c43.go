package main

const hookPkg = "github.com/redis/rueidis/rueidishook"

func init() {
	checks["C43"] = &checkDef{
		Level:       levelOther,
		Explanation: "Execution of the real rueidishook wrappers (WithHook, hookclient, dedicated, extended; module rueidishook) with a counting stub Hook and a stub inner client. The route (wrapped client itself, a client from Nodes(), the client from Dedicate(), the client handed to Dedicated()) and the entry point (Do, DoMulti, DoCache, DoMultiCache, Receive, DoStream, DoMultiStream; for dedicated clients Do, DoMulti, Receive) are decisions; every combination is executed. Oracle: exactly one hook invocation, of the matching method; the value returned to the caller is the hook's own result; the inner client is not called behind the hook's back. Chained hooks (WithHook(WithHook(c, h1), h2), both forwarding): on every route and entry point each hook sees the request exactly once and the underlying client (the node's client on the Nodes() route) is reached exactly once. This property quantifies over the finite set of entry points ('programs'), so the exploration is an exhaustive enumeration of decisions with concrete data; no symbolic data is involved.",
		Assumptions: []string{"stub Hook and stub inner client (harness code)"},
		Outside:     []string{"hook implementations that forward to the client (what the hook does is the user's code)"},
		Bounds:      map[string]any{"quick": "4 routes × all entry points (27 combinations)", "thorough": "same"},
		specs: func(tier string) []specRef {
			r := hsx(hookPkg, "VerifC43_hooks", nil, 10000, 600, "client", "dedicated")
			r.dir = "rueidishook"
			ch := hsx(hookPkg, "VerifC43_chained", nil, 10000, 600, "client", "dedicated", "nodes")
			ch.dir = "rueidishook"
			return []specRef{r, ch}
		},
	}
}
