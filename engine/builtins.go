package main

// Go builtins (append, copy, len, ...), unsafe.*, host methods, time intrinsics.

import (
	"fmt"
	"go/token"
	"go/types"

	"golang.org/x/tools/go/ssa"
)

const (
	tokenADD = token.ADD
	tokenAND = token.AND
	tokenOR  = token.OR
)

func (m *machine) appendValues(s slice, add []value, et types.Type) slice {
	n := s.len + len(add)
	if s.o != nil && n <= s.cap {
		a := s.o.v.(array)
		copy(a[s.off+s.len:], add)
		return slice{o: s.o, off: s.off, len: n, cap: s.cap}
	}
	// grow (approximation of Go's policy: double small slices, 1.25x large ones)
	nc := s.cap * 2
	if s.cap >= 256 {
		nc = s.cap + s.cap/4 + 192
	}
	if nc < n {
		nc = n
	}
	if et != nil {
		if b := basicOf(et); b != nil && b.Kind() == types.Uint8 && nc < 8 {
			nc = 8
		}
	}
	r := m.makeSlice(et, n, nc)
	a := r.o.v.(array)
	copy(a, s.elems())
	for i, v := range add {
		a[s.len+i] = copyVal(v)
	}
	return r
}

func (m *machine) callBuiltin(fr *frame, b *ssa.Builtin, args []value, site ssa.Instruction) value {
	switch b.Name() {
	case "append":
		s := args[0].(slice)
		var et types.Type
		if site != nil {
			if v, ok := site.(ssa.Value); ok {
				if st, ok := v.Type().Underlying().(*types.Slice); ok {
					et = st.Elem()
				}
			}
		}
		if et == nil {
			et = types.Typ[types.Uint8]
		}
		switch t := args[1].(type) {
		case slice:
			if t.len == 0 {
				return s
			}
			return m.appendValues(s, t.elems(), et)
		case string:
			if len(t) == 0 {
				return s
			}
			return m.appendValues(s, strBytes(t), et)
		case *sstr:
			return m.appendValues(s, t.b, et)
		}
		panic(fmt.Sprintf("append: %T", args[1]))
	case "copy":
		dst := args[0].(slice)
		var src []value
		switch t := args[1].(type) {
		case slice:
			src = t.elems()
		case string, *sstr:
			src = strBytes(t)
		}
		d := dst.elems()
		n := len(src)
		if len(d) < n {
			n = len(d)
		}
		// handle overlap like memmove
		tmp := make([]value, n)
		for i := 0; i < n; i++ {
			tmp[i] = copyVal(src[i])
		}
		copy(d, tmp)
		return int64(n)
	case "close":
		m.chanClose(fr, args[0].(*chanobj))
		return nil
	case "delete":
		mo := args[0].(*mapobj)
		if mo != nil {
			m.mapDelete(fr, mo, args[1])
		}
		return nil
	case "clear":
		switch x := args[0].(type) {
		case *mapobj:
			if x != nil {
				x.entries, x.index, x.live, x.symKeys = nil, map[any]int{}, 0, 0
			}
		case slice:
			if x.len > 0 {
				var et types.Type
				if c, ok := site.(*ssa.Call); ok {
					et = c.Call.Args[0].Type().Underlying().(*types.Slice).Elem()
				}
				for i := range x.elems() {
					x.elems()[i] = zero(et)
				}
			}
		}
		return nil
	case "len":
		switch x := args[0].(type) {
		case string:
			return int64(len(x))
		case *sstr:
			return int64(len(x.b))
		case slice:
			return int64(x.len)
		case array:
			return int64(len(x))
		case ptr:
			return int64(len((*x.c).(array)))
		case *mapobj:
			if x == nil {
				return int64(0)
			}
			return int64(x.live)
		case *chanobj:
			if x == nil {
				return int64(0)
			}
			return int64(len(x.buf))
		}
		panic(fmt.Sprintf("len: %T", args[0]))
	case "cap":
		switch x := args[0].(type) {
		case slice:
			return int64(x.cap)
		case array:
			return int64(len(x))
		case ptr:
			return int64(len((*x.c).(array)))
		case *chanobj:
			if x == nil {
				return int64(0)
			}
			return int64(x.cap)
		}
		panic(fmt.Sprintf("cap: %T", args[0]))
	case "min", "max":
		t := site.(ssa.Value).Type()
		r := args[0]
		for _, a := range args[1:] {
			op := token.LSS
			if b.Name() == "max" {
				op = token.GTR
			}
			c := m.binop(fr, op, t, a, r, t)
			switch c := c.(type) {
			case bool:
				if c {
					r = a
				}
			case *sym:
				if m.decideBool(c.t, b.Name()) {
					r = a
				}
			}
		}
		return r
	case "print", "println":
		return nil
	case "recover":
		return m.doRecover(fr)
	case "ssa:wrapnilchk":
		if p, ok := args[0].(ptr); ok && p.isNil() {
			m.goPanic(fr, fmt.Sprintf("value method %v.%v called using nil pointer", args[1], args[2]))
		}
		return args[0]
	case "Add":
		panic(unsupported("unsafe.Add"))
	case "Slice":
		p := args[0].(ptr)
		n := m.concLen(fr, args[1], "unsafe.Slice: len out of range")
		if p.isNil() {
			if n != 0 {
				m.goPanic(fr, "unsafe.Slice: ptr is nil and len is not zero")
			}
			return slice{}
		}
		o, off, avail := m.backing(fr, p)
		if int(n) > avail {
			m.violation(fr, fmt.Sprintf("unsafe.Slice(ptr, %d) exceeds the %d elements of the underlying allocation (out-of-bounds view)", n, avail))
		}
		return slice{o: o, off: off, len: int(n), cap: int(n)}
	case "SliceData":
		s := args[0].(slice)
		if s.o == nil {
			return ptr{}
		}
		a := s.o.v.(array)
		if s.off >= len(a) {
			// zero-capacity slice at the end of the array: a valid non-nil pointer with no elements
			return ptr{o: s.o, c: new(value)}
		}
		return ptr{o: s.o, c: &a[s.off]}
	case "String":
		p := args[0].(ptr)
		n := m.concLen(fr, args[1], "unsafe.String: len out of range")
		if p.isNil() {
			if n != 0 {
				m.goPanic(fr, "unsafe.String: ptr is nil and len is not zero")
			}
			return ""
		}
		if n == 0 {
			return ""
		}
		o, off, avail := m.backing(fr, p)
		if int(n) > avail {
			m.violation(fr, fmt.Sprintf("unsafe.String(ptr, %d) exceeds the %d bytes of the underlying allocation (out-of-bounds view)", n, avail))
		}
		return mkStr(o.v.(array)[off : off+int(n)])
	case "StringData":
		s := args[0]
		if strLen(s) == 0 {
			o := m.newObject(array{}, "stringdata")
			return ptr{o: o, c: new(value)}
		}
		a := make(array, strLen(s))
		copy(a, strBytes(s))
		o := m.newObject(a, "stringdata")
		return ptr{o: o, c: &a[0]}
	}
	panic(unsupported("builtin " + b.Name()))
}

// backing locates the array object and offset a pointer points into (for unsafe.Slice/String).
func (m *machine) backing(fr *frame, p ptr) (*object, int, int) {
	p = m.concPtr(fr, p)
	if a, ok := p.o.v.(array); ok {
		if i := cellIndex(a, p.c); i >= 0 {
			return p.o, i, len(a) - i
		}
		if len(a) == 0 {
			return p.o, 0, 0
		}
	}
	if p.c == &p.o.v {
		// pointer to a single (non-array) object: a one-element view
		o := &object{v: array{*p.c}, id: -1, what: "view1"}
		return o, 0, 1
	}
	panic(unsupported("unsafe view of a pointer into the middle of a non-array object"))
}

func (m *machine) doRecover(fr *frame) value {
	// recover() is effective only when called directly by a deferred function of a panicking frame
	if fr == nil || fr.caller == nil || !fr.caller.panicking {
		return iface{}
	}
	c := fr.caller
	c.panicking = false
	tp := c.panicVal
	c.panicVal = nil
	if tp == nil {
		return iface{}
	}
	if v, ok := tp.v.(iface); ok {
		return v
	}
	return iface{t: types.Typ[types.String], v: tp.msg}
}

func (m *machine) callHostMethod(fr *frame, b *boundMethod, args []value) value {
	switch b.name {
	case "wg.goDone":
		rv := b.recv.([]value)
		m.callValue(m.cur, fr, rv[1], nil, nil)
		in := intrinsics["(*sync.WaitGroup).Done"]
		in(m, fr, nil, []value{rv[0]})
		return nil
	case "rtype.Elem":
		return iface{t: types.Typ[types.Int], v: b.recv}
	case "rtype.Comparable":
		return true
	case "rtype.String", "rtype.Name":
		return "<type>"
	case "harnessMain":
		m.runHarnessMain(fr, b.recv.([]value))
		return nil
	}
	panic(unsupported("host method " + b.name))
}

// ---- time ----

const virtualEpochNs = int64(1_700_000_000) * 1_000_000_000
const unixToInternal = int64((1969*365 + 1969/4 - 1969/100 + 1969/400) * 86400)

func (m *machine) timeType() types.Type {
	return m.p.pkgs["time"].Pkg.Scope().Lookup("Time").Type()
}

// timeValue builds a time.Time (no monotonic reading) for ns since the Unix epoch.
func (m *machine) timeValue(ns int64) value {
	tt := m.timeType()
	st := zero(tt).(structure)
	sec := ns/1e9 + unixToInternal
	nsec := ns % 1e9
	st[fieldIndex(tt, "wall")] = int64(nsec)
	st[fieldIndex(tt, "ext")] = sec
	return st
}

type timerRef struct{ t *timer }

func init() {
	reg("time.Now", func(m *machine, fr *frame, fn *ssa.Function, a []value) (value, bool) {
		if fr != nil && m.cfg.params["time_visible"] != 0 {
			m.yieldPoint(fr, "time")
		}
		if m.nowSym != nil {
			return m.symTimeValue(m.nowSym), true
		}
		return m.timeValue(m.now), true
	})
	reg("time.runtimeNano", func(m *machine, fr *frame, fn *ssa.Function, a []value) (value, bool) {
		return m.now, true
	})
	reg("time.now", func(m *machine, fr *frame, fn *ssa.Function, a []value) (value, bool) {
		return tuple{m.now / 1e9, int64(int32(m.now % 1e9)), m.now}, true
	})
	reg("time.runtimeNow", func(m *machine, fr *frame, fn *ssa.Function, a []value) (value, bool) {
		return tuple{m.now / 1e9, int64(int32(m.now % 1e9)), m.now}, true
	})
	reg("time.Sleep", func(m *machine, fr *frame, fn *ssa.Function, a []value) (value, bool) {
		d := m.concInt(a[0], "sleep")
		if d <= 0 {
			m.gosched(fr)
			return nil, true
		}
		m.addTimer(&timer{when: m.now + d, sleeper: m.cur, what: "sleep"})
		m.park(fr, "time.Sleep")
		return nil, true
	})
	newTimerObj := func(m *machine, fn *ssa.Function, t *timer, typeName string) ptr {
		tt := fn.Pkg.Pkg.Scope().Lookup(typeName).Type()
		st := zero(tt).(structure)
		if t.ch != nil {
			st[fieldIndex(tt, "C")] = t.ch
		}
		o := m.newObject(st, "time."+typeName)
		m.hostState[&o.v] = t
		return ptr{o: o, c: &o.v}
	}
	timerOf := func(m *machine, fr *frame, p ptr) *timer {
		if p.isNil() {
			m.goPanic(fr, "invalid memory address or nil pointer dereference (nil *time.Timer)")
		}
		t, ok := m.hostState[p.c].(*timer)
		if !ok {
			m.goPanic(fr, "time: Stop/Reset called on uninitialized Timer")
		}
		return t
	}
	reg("time.AfterFunc", func(m *machine, fr *frame, fn *ssa.Function, a []value) (value, bool) {
		d := m.concInt(a[0], "AfterFunc")
		if d < 0 {
			d = 0
		}
		t := m.addTimer(&timer{when: m.now + d, fn: a[1], what: "AfterFunc"})
		return newTimerObj(m, fn, t, "Timer"), true
	})
	reg("time.NewTimer", func(m *machine, fr *frame, fn *ssa.Function, a []value) (value, bool) {
		d := m.concInt(a[0], "NewTimer")
		if d < 0 {
			d = 0
		}
		ch := m.newChan(1, m.timeType())
		t := m.addTimer(&timer{when: m.now + d, ch: ch, what: "Timer"})
		return newTimerObj(m, fn, t, "Timer"), true
	})
	reg("time.NewTicker", func(m *machine, fr *frame, fn *ssa.Function, a []value) (value, bool) {
		d := m.concInt(a[0], "NewTicker")
		if d <= 0 {
			m.goPanic(fr, "non-positive interval for NewTicker")
		}
		ch := m.newChan(1, m.timeType())
		t := m.addTimer(&timer{when: m.now + d, period: d, ch: ch, what: "Ticker"})
		return newTimerObj(m, fn, t, "Ticker"), true
	})
	reg("(*time.Timer).Stop", func(m *machine, fr *frame, fn *ssa.Function, a []value) (value, bool) {
		m.yieldPoint(fr, "timer")
		t := timerOf(m, fr, a[0].(ptr))
		was := t.active
		t.active = false
		if t.ch != nil {
			t.ch.buf = nil // Go 1.23+: no stale values after Stop
		}
		return was, true
	})
	reg("(*time.Timer).Reset", func(m *machine, fr *frame, fn *ssa.Function, a []value) (value, bool) {
		m.yieldPoint(fr, "timer")
		t := timerOf(m, fr, a[0].(ptr))
		d := m.concInt(a[1], "Reset")
		if d < 0 {
			d = 0
		}
		was := t.active
		t.active = true
		t.when = m.now + d
		if t.ch != nil {
			t.ch.buf = nil
		}
		return was, true
	})
	reg("(*time.Ticker).Stop", func(m *machine, fr *frame, fn *ssa.Function, a []value) (value, bool) {
		t := timerOf(m, fr, a[0].(ptr))
		t.active = false
		return nil, true
	})
	reg("(*time.Ticker).Reset", func(m *machine, fr *frame, fn *ssa.Function, a []value) (value, bool) {
		t := timerOf(m, fr, a[0].(ptr))
		d := m.concInt(a[1], "Reset")
		t.active = true
		t.period = d
		t.when = m.now + d
		return nil, true
	})
}
