package main

// Value model of the symbolic interpreter.
//
// Concrete scalars:   bool, int64 (every integer kind incl. uintptr; canonical: sign-extended for
//                     signed kinds, zero-extended for unsigned ones, uint64 as bit pattern),
//                     float64 (float32 values are kept rounded), complex128, string.
// Symbolic scalars:   *sym (bit-vector or Bool term; float kinds carry their IEEE bit pattern).
// Symbolic strings:   *sstr (concrete length, each byte concrete int64 or *sym of width 8).
// Aggregates:         structure / array ([]value, copied on assignment).
// References:         ptr (object + cell), slice (backing object + window), *mapobj, *chanobj,
//                     *closure / *ssa.Function / *ssa.Builtin / *boundMethod, iface, tuple.

import (
	"fmt"
	"go/types"
	"strings"
	"unsafe"

	"golang.org/x/tools/go/ssa"
)

type value any

type sym struct {
	t *term
}

type sstr struct {
	b []value // int64 (0..255) or *sym (w=8)
}

type structure []value
type array []value
type tuple []value

// object is one allocation (Alloc, make, composite literal storage, global).
type object struct {
	v    value // the cell; structure/array for aggregates
	id   int
	what string
}

type ptr struct {
	o *object
	c *value // the addressed cell (lies inside o.v's tree, or == &o.v)
	// symbolic index into an array object (lazy concretisation): c == nil, symIdx != nil
	symIdx *sym
	win    []value
	elemT  types.Type
}

func (p ptr) isNil() bool { return p.c == nil && p.symIdx == nil }

type slice struct {
	o   *object // backing array object (o.v is array); nil for nil slice
	off int
	len int
	cap int
}

func (s slice) isNil() bool { return s.o == nil }
func (s slice) elems() []value {
	if s.o == nil {
		return nil
	}
	return s.o.v.(array)[s.off : s.off+s.len]
}

type iface struct {
	t types.Type // dynamic type; nil for nil interface
	v value
}

type closure struct {
	fn  *ssa.Function
	env []value
}

type boundMethod struct { // host-implemented method value
	name string
	recv value
}

type hostObj struct { // opaque host-side object (regexp etc.)
	kind string
	v    any
}

type mapEntry struct {
	k, v    value
	deleted bool
}

type mapobj struct {
	kt, vt  types.Type
	entries []*mapEntry
	index   map[any]int // for hashable concrete keys
	live    int
	symKeys int
	id      int
}

type badValue struct{}

// lazyCell is a not-yet-materialised slice element (verifLazySlice).
type lazyCell struct {
	gen  value
	idx  int
	key  string
	done bool
	val  value
}

func cellIndex(a array, c *value) int {
	if len(a) == 0 {
		return -1
	}
	base := uintptr(unsafe.Pointer(&a[0]))
	p := uintptr(unsafe.Pointer(c))
	sz := unsafe.Sizeof(a[0])
	if p < base || p >= base+uintptr(len(a))*sz {
		return -1
	}
	return int((p - base) / sz)
}

// copyVal copies aggregates (value semantics); everything else is shared.
func copyVal(v value) value {
	switch v := v.(type) {
	case structure:
		n := make(structure, len(v))
		for i, e := range v {
			n[i] = copyVal(e)
		}
		return n
	case array:
		n := make(array, len(v))
		for i, e := range v {
			n[i] = copyVal(e)
		}
		return n
	case tuple:
		n := make(tuple, len(v))
		for i, e := range v {
			n[i] = copyVal(e)
		}
		return n
	}
	return v
}

func isIntegerKind(b *types.Basic) bool { return b.Info()&types.IsInteger != 0 }

// widthOf returns (bits, signed) for integer basic kinds; int/uint/uintptr are 64-bit.
func widthOf(b *types.Basic) (int, bool) {
	switch b.Kind() {
	case types.Int8:
		return 8, true
	case types.Int16:
		return 16, true
	case types.Int32:
		return 32, true
	case types.Int64, types.Int, types.UntypedInt, types.UntypedRune:
		return 64, true
	case types.Uint8:
		return 8, false
	case types.Uint16:
		return 16, false
	case types.Uint32:
		return 32, false
	case types.Uint64, types.Uint, types.Uintptr:
		return 64, false
	case types.UnsafePointer:
		return 64, false
	}
	panic("widthOf: not an integer kind: " + b.String())
}

// canon brings a 64-bit pattern into the canonical int64 form of the given width/sign.
func canon(u uint64, w int, signed bool) int64 {
	if w >= 64 {
		return int64(u)
	}
	if signed {
		return sext64(u, w)
	}
	return int64(u & mask(w))
}

func basicOf(t types.Type) *types.Basic {
	b, _ := t.Underlying().(*types.Basic)
	return b
}

// zero returns the zero value of a type.
func zero(t types.Type) value {
	switch t := t.(type) {
	case *types.Basic:
		switch {
		case t.Kind() == types.UntypedNil:
			return iface{}
		case t.Info()&types.IsBoolean != 0:
			return false
		case t.Info()&types.IsInteger != 0:
			return int64(0)
		case t.Info()&types.IsFloat != 0:
			return float64(0)
		case t.Info()&types.IsComplex != 0:
			return complex128(0)
		case t.Info()&types.IsString != 0:
			return ""
		case t.Kind() == types.UnsafePointer:
			return ptr{}
		}
		panic("zero: basic " + t.String())
	case *types.Pointer:
		return ptr{}
	case *types.Array:
		a := make(array, t.Len())
		for i := range a {
			a[i] = zero(t.Elem())
		}
		return a
	case *types.Slice:
		return slice{}
	case *types.Struct:
		s := make(structure, t.NumFields())
		for i := range s {
			s[i] = zero(t.Field(i).Type())
		}
		return s
	case *types.Tuple:
		if t.Len() == 1 {
			return zero(t.At(0).Type())
		}
		s := make(tuple, t.Len())
		for i := range s {
			s[i] = zero(t.At(i).Type())
		}
		return s
	case *types.Chan:
		return (*chanobj)(nil)
	case *types.Map:
		return (*mapobj)(nil)
	case *types.Signature:
		return (*ssa.Function)(nil)
	case *types.Interface:
		return iface{}
	case *types.Named:
		return zero(t.Underlying())
	case *types.Alias:
		return zero(types.Unalias(t))
	case *types.TypeParam:
		panic(unsupported("zero of type parameter " + t.String()))
	}
	panic(fmt.Sprintf("zero: unexpected type %T %v", t, t))
}

// ---- strings ----

func strLen(v value) int {
	switch s := v.(type) {
	case string:
		return len(s)
	case *sstr:
		return len(s.b)
	}
	panic(fmt.Sprintf("strLen: %T", v))
}

func strBytes(v value) []value {
	switch s := v.(type) {
	case string:
		b := make([]value, len(s))
		for i := 0; i < len(s); i++ {
			b[i] = int64(s[i])
		}
		return b
	case *sstr:
		return s.b
	}
	panic(fmt.Sprintf("strBytes: %T", v))
}

// mkStr builds a string value from bytes, collapsing to a Go string when fully concrete.
func mkStr(b []value) value {
	conc := true
	for _, e := range b {
		if _, ok := e.(*sym); ok {
			conc = false
			break
		}
	}
	if conc {
		var sb strings.Builder
		sb.Grow(len(b))
		for _, e := range b {
			sb.WriteByte(byte(e.(int64)))
		}
		return sb.String()
	}
	n := make([]value, len(b))
	copy(n, b)
	return &sstr{b: n}
}

func isConcrete(v value) bool {
	switch v := v.(type) {
	case *sym:
		return false
	case *sstr:
		return false
	case structure:
		for _, e := range v {
			if !isConcrete(e) {
				return false
			}
		}
	case array:
		for _, e := range v {
			if !isConcrete(e) {
				return false
			}
		}
	case iface:
		return isConcrete(v.v)
	}
	return true
}

type unsupported string

func (u unsupported) Error() string { return "unsupported: " + string(u) }
