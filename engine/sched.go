package main

// Controlled concurrency: interpreted goroutines are host goroutines of which exactly one runs
// at a time (baton passing). Context switches happen only at visible operations and are
// decisions of the path (the schedule is a symbolic input).

import (
	"fmt"
	"go/types"
	"os"
	"sort"
	"strings"

	"golang.org/x/tools/go/ssa"
)

var traceSched bool

type gstate int

const (
	gRunnable gstate = iota
	gRunning
	gBlocked
	gDone
)

type gor struct {
	id         int
	name       string
	resume     chan bool
	dead       chan struct{}
	state      gstate
	daemon     bool // library-spawned: may stay parked at path end
	depth      int
	waitReason string
	waitStack  string
	started    bool
	fn         value
	args       []value
	wakeTimer  bool
	top        *frame
	cur        ssa.Instruction
}

type waiter struct {
	g       *gor
	ch      *chanobj
	isSend  bool
	val     value
	ok      bool
	sel     *selState
	caseIdx int
	fired   bool
	closedPanic bool
}

type selState struct {
	fired bool
	idx   int
	val   value
	ok    bool
	ws    []*waiter
	closedPanic bool
}

type chanobj struct {
	id     int
	cap    int
	buf    []value
	closed bool
	sendq  []*waiter
	recvq  []*waiter
	elem   types.Type
}

type timer struct {
	id     int
	when   int64
	period int64
	active bool
	fn     value    // AfterFunc
	ch     *chanobj // NewTimer / Ticker
	sleeper *gor
	what   string
}

func (m *machine) newChan(n int, elem types.Type) *chanobj {
	m.objSeq++
	return &chanobj{id: m.objSeq, cap: n, elem: elem}
}

// ---- goroutine lifecycle ----

func (m *machine) spawn(fr *frame, fn value, args []value, name string) *gor {
	m.gseq++
	g := &gor{id: m.gseq, name: name, resume: make(chan bool), dead: make(chan struct{}), state: gRunnable, fn: fn, args: args}
	if name == "" {
		g.daemon = true
		g.name = fmt.Sprintf("g%d", g.id)
		if f, ok := fn.(*ssa.Function); ok {
			g.name += ":" + f.Name()
		} else if c, ok := fn.(*closure); ok {
			g.name += ":" + c.fn.Name()
		}
	}
	m.gors = append(m.gors, g)
	go m.gorMain(g)
	if fr != nil {
		m.yieldPoint(fr, "go")
	}
	return g
}

func (m *machine) gorMain(g *gor) {
	defer close(g.dead)
	if ok := <-g.resume; !ok {
		return
	}
	g.state = gRunning
	end, killed := m.protect(g, func() { m.callValue(g, nil, g.fn, g.args, nil) })
	if killed {
		return
	}
	if end != nil {
		m.finish(end)
		return
	}
	g.state = gDone
	if g == m.gors[0] {
		m.finish(&pathEnd{out: outOK})
		return
	}
	end, killed = m.protect(g, func() {
		m.wakeJoiners()
		m.scheduleNext(nil)
	})
	if end != nil && !killed {
		m.finish(end)
	}
}

// protect runs f and converts engine-level panics into a path end.
func (m *machine) protect(g *gor, f func()) (end *pathEnd, killed bool) {
	defer func() {
		r := recover()
		switch r := r.(type) {
		case nil:
		case killSignal:
			killed = true
		case *pathEnd:
			end = r
		case *targetPanic:
			m.endStack = r.stack
			end = &pathEnd{out: outViolation, msg: "panic: " + r.msg + " [goroutine " + g.name + "]"}
		case unsupported:
			end = &pathEnd{out: outUnsupported, msg: string(r)}
		default:
			where := ""
			if g.top != nil {
				where = fmt.Sprintf(" at [%v] in %s", g.cur, g.top.stackString())
			}
			if os.Getenv("SYMGO_DEBUG") != "" {
				where += "\n" + hostStack()
			}
			end = &pathEnd{out: outUnsupported, msg: fmt.Sprintf("engine panic: %v%s", r, where)}
		}
	}()
	f()
	return
}

// finish records the end of the path and releases the runner.
func (m *machine) finish(e *pathEnd) {
	if m.end == nil {
		m.end = e
		close(m.finishedCh)
	}
}

// switchTo hands the baton to next; the caller parks unless it is done.
func (m *machine) switchTo(cur, next *gor) {
	if cur == next {
		cur.state = gRunning
		return
	}
	m.cur = next
	next.state = gRunning
	next.resume <- true
	if cur != nil && cur.state != gDone {
		if ok := <-cur.resume; !ok {
			panic(killSignal{})
		}
		cur.state = gRunning
		m.cur = cur
	}
}

func (m *machine) runnable() []*gor {
	var r []*gor
	for _, g := range m.gors {
		if g.state == gRunnable {
			r = append(r, g)
		}
	}
	return r
}

// scheduleNext is called by a goroutine that cannot continue (blocked or done).
func (m *machine) scheduleNext(cur *gor) {
	for {
		cands := m.rrOrder(m.runnable(), cur)
		if len(cands) > 0 {
			i := 0
			// delay-bounded scheduling: the default successor is the next runnable goroutine in
			// round-robin order; choosing the i-th one instead costs i units of the delay budget
			if n := min(len(cands), m.preemptLeft+1); n > 1 {
				i = m.choose(n, "sched")
				m.preemptLeft -= i
			}
			m.schedLog(cands[i])
			m.switchTo(cur, cands[i])
			return
		}
		if m.fireIdleTimer() {
			continue
		}
		// nothing can run
		m.deadlock()
	}
}

// rrOrder orders runnable goroutines round-robin starting after cur.
func (m *machine) rrOrder(gs []*gor, cur *gor) []*gor {
	if cur == nil || len(gs) < 2 {
		return gs
	}
	var after, before []*gor
	for _, g := range gs {
		if g.id > cur.id {
			after = append(after, g)
		} else {
			before = append(before, g)
		}
	}
	return append(after, before...)
}

func (m *machine) where(g *gor) string {
	if g == nil || g.top == nil {
		return "?"
	}
	fr := g.top
	pos := ""
	if g.cur != nil {
		pos = m.posOf(fr, g.cur.Pos())
	}
	// innermost /repo frame
	for f := fr; f != nil; f = f.caller {
		if f.fn.Pkg != nil && strings.HasPrefix(f.fn.Pkg.Pkg.Path(), "github.com/redis/rueidis") {
			return f.fn.Name() + "@" + pos
		}
	}
	return fr.fn.Name() + "@" + pos
}

func (m *machine) schedLog(g *gor) {
	if traceSched {
		from := "-"
		if m.cur != nil {
			from = fmt.Sprintf("%s(%s, %s)", m.cur.name, m.where(m.cur), m.cur.waitReason)
		}
		fmt.Fprintf(os.Stderr, "  sched: %s  ->  %s(%s)\n", from, g.name, m.where(g))
	}
	m.schedule = append(m.schedule, g.id)
}

// park blocks the current goroutine until another one marks it runnable.
func (m *machine) park(fr *frame, reason string) {
	g := m.cur
	g.state = gBlocked
	g.waitReason = reason
	if fr != nil {
		g.waitStack = fr.stackString()
	}
	m.scheduleNext(g)
	g.waitReason = ""
}

func (m *machine) ready(g *gor) {
	if g.state == gBlocked {
		g.state = gRunnable
	}
}

// yieldPoint is a visible operation: other runnable goroutines may be scheduled here if the
// context bound allows.
func (m *machine) yieldPoint(fr *frame, kind string) {
	if m.preemptLeft <= 0 {
		return
	}
	if m.cfg.schedKinds != nil && !m.cfg.schedKinds[kind] {
		return
	}
	others := m.rrOrder(m.runnable(), m.cur)
	nt := 0
	var tms []*timer
	if m.cfg.timersEager {
		tms = m.activeTimers()
		nt = len(tms)
	}
	if len(others)+nt == 0 {
		return
	}
	c := m.choose(min(1+len(others)+nt, m.preemptLeft+1), "preempt:"+kind)
	if c == 0 {
		return
	}
	m.preemptLeft -= c
	cur := m.cur
	if c <= len(others) {
		cur.state = gRunnable
		m.schedLog(others[c-1])
		m.switchTo(cur, others[c-1])
		return
	}
	m.fireTimer(tms[c-1-len(others)])
	// the fired timer made something runnable (or spawned a goroutine): let it run first
	if rs := m.runnable(); len(rs) > 0 {
		cur.state = gRunnable
		m.schedLog(rs[len(rs)-1])
		m.switchTo(cur, rs[len(rs)-1])
	}
}

// gosched: voluntary yield (runtime.Gosched, verifYield): no pre-emption budget needed.
func (m *machine) gosched(fr *frame) {
	others := m.rrOrder(m.runnable(), m.cur)
	if len(others) == 0 {
		// let idle timers fire so that busy-wait loops on time make progress
		return
	}
	cur := m.cur
	cur.state = gRunnable
	i := 0
	if n := min(len(others), m.preemptLeft+1); n > 1 {
		i = m.choose(n, "gosched")
		m.preemptLeft -= i
	}
	m.schedLog(others[i])
	m.switchTo(cur, others[i])
}

func (m *machine) deadlock() {
	var blocked []string
	for _, g := range m.gors {
		if g.state == gBlocked && !g.daemon {
			blocked = append(blocked, fmt.Sprintf("%s blocked on %s at %s", g.name, g.waitReason, g.waitStack))
		}
	}
	if len(blocked) > 0 {
		sort.Slice(blocked, func(i, j int) bool {
			ji, jj := strings.Contains(blocked[i], "blocked on verifJoin"), strings.Contains(blocked[j], "blocked on verifJoin")
			if ji != jj {
				return jj // the joining main goroutine last: name the goroutine that actually hangs
			}
			return blocked[i] < blocked[j]
		})
		m.endStack = blocked[0]
		m.abort(outViolation, fmt.Sprintf("HANG: no goroutine can make progress; %d harness goroutine(s) blocked: %s", len(blocked), blocked[0]))
	}
	m.abort(outOK, "quiescent")
}

// ---- joiners ----

func (m *machine) wakeJoiners() {
	for _, g := range m.gors {
		if g.state == gBlocked && g.waitReason == "verifJoin" {
			m.ready(g)
		}
	}
}

func (m *machine) joinAll(fr *frame) {
	for {
		pending := false
		for _, g := range m.gors[1:] {
			if !g.daemon && g.state != gDone {
				pending = true
			}
		}
		if !pending {
			return
		}
		m.park(fr, "verifJoin")
	}
}

// ---- channels ----

func (m *machine) fire(w *waiter) {
	w.fired = true
	if w.sel != nil {
		s := w.sel
		s.fired = true
		s.idx = w.caseIdx
		s.val = w.val
		s.ok = w.ok
		s.closedPanic = w.closedPanic
		for _, o := range s.ws {
			if o != w {
				o.ch.remove(o)
			}
		}
	}
	m.ready(w.g)
}

func (c *chanobj) remove(w *waiter) {
	for i, x := range c.sendq {
		if x == w {
			c.sendq = append(c.sendq[:i:i], c.sendq[i+1:]...)
			return
		}
	}
	for i, x := range c.recvq {
		if x == w {
			c.recvq = append(c.recvq[:i:i], c.recvq[i+1:]...)
			return
		}
	}
}

func (m *machine) chanSend(fr *frame, chv value, v value) {
	c := chv.(*chanobj)
	m.yieldPoint(fr, "chan")
	if c == nil {
		m.park(fr, "send on nil channel")
		panic("unreachable: woke from nil channel send")
	}
	if !m.trySend(fr, c, v) {
		w := &waiter{g: m.cur, ch: c, isSend: true, val: copyVal(v)}
		c.sendq = append(c.sendq, w)
		m.park(fr, fmt.Sprintf("chan send (chan#%d)", c.id))
		if w.closedPanic {
			m.goPanic(fr, "send on closed channel")
		}
	}
}

func (m *machine) trySend(fr *frame, c *chanobj, v value) bool {
	if c.closed {
		m.goPanic(fr, "send on closed channel")
	}
	if len(c.recvq) > 0 {
		w := c.recvq[0]
		c.recvq = c.recvq[1:]
		w.val, w.ok = copyVal(v), true
		m.fire(w)
		return true
	}
	if len(c.buf) < c.cap {
		c.buf = append(c.buf, copyVal(v))
		return true
	}
	return false
}

func (m *machine) tryRecv(c *chanobj) (value, bool, bool) {
	if len(c.buf) > 0 {
		v := c.buf[0]
		c.buf = c.buf[1:]
		if len(c.sendq) > 0 {
			w := c.sendq[0]
			c.sendq = c.sendq[1:]
			c.buf = append(c.buf, w.val)
			m.fire(w)
		}
		return v, true, true
	}
	if len(c.sendq) > 0 {
		w := c.sendq[0]
		c.sendq = c.sendq[1:]
		v := w.val
		m.fire(w)
		return v, true, true
	}
	if c.closed {
		return zero(c.elem), false, true
	}
	return nil, false, false
}

func (m *machine) chanRecv(fr *frame, chv value, commaOk bool) value {
	c := chv.(*chanobj)
	m.yieldPoint(fr, "chan")
	if c == nil {
		m.park(fr, "receive from nil channel")
		panic("unreachable: woke from nil channel receive")
	}
	v, ok, done := m.tryRecv(c)
	if !done {
		w := &waiter{g: m.cur, ch: c}
		c.recvq = append(c.recvq, w)
		m.park(fr, fmt.Sprintf("chan receive (chan#%d)", c.id))
		v, ok = w.val, w.ok
	}
	if commaOk {
		return tuple{v, ok}
	}
	return v
}

func (m *machine) chanClose(fr *frame, c *chanobj) {
	m.yieldPoint(fr, "chan")
	if c == nil {
		m.goPanic(fr, "close of nil channel")
	}
	if c.closed {
		m.goPanic(fr, "close of closed channel")
	}
	c.closed = true
	rq := c.recvq
	c.recvq = nil
	for _, w := range rq {
		w.val, w.ok = zero(c.elem), false
		m.fire(w)
	}
	sq := c.sendq
	c.sendq = nil
	for _, w := range sq {
		w.closedPanic = true
		m.fire(w)
	}
}

func (m *machine) selectOp(fr *frame, instr *ssa.Select) value {
	m.yieldPoint(fr, "chan")
	type scase struct {
		c    *chanobj
		send bool
		v    value
	}
	cases := make([]scase, len(instr.States))
	for i, st := range instr.States {
		c, _ := fr.get(st.Chan).(*chanobj)
		cases[i] = scase{c: c, send: st.Dir == types.SendOnly}
		if cases[i].send {
			cases[i].v = fr.get(st.Send)
		}
	}
	var readyIdx []int
	for i, sc := range cases {
		if sc.c == nil {
			continue
		}
		if sc.send {
			if sc.c.closed || len(sc.c.recvq) > 0 || len(sc.c.buf) < sc.c.cap {
				readyIdx = append(readyIdx, i)
			}
		} else if len(sc.c.buf) > 0 || len(sc.c.sendq) > 0 || sc.c.closed {
			readyIdx = append(readyIdx, i)
		}
	}
	idx := -1
	var rv value
	rok := false
	if len(readyIdx) > 0 {
		k := 0
		if len(readyIdx) > 1 {
			k = m.choose(len(readyIdx), "select")
		}
		idx = readyIdx[k]
		sc := cases[idx]
		if sc.send {
			if !m.trySend(fr, sc.c, sc.v) {
				panic("select: ready send failed")
			}
		} else {
			rv, rok, _ = m.tryRecv(sc.c)
		}
	} else if instr.Blocking {
		s := &selState{}
		for i, sc := range cases {
			if sc.c == nil {
				continue
			}
			w := &waiter{g: m.cur, ch: sc.c, isSend: sc.send, sel: s, caseIdx: i}
			if sc.send {
				w.val = copyVal(sc.v)
				sc.c.sendq = append(sc.c.sendq, w)
			} else {
				sc.c.recvq = append(sc.c.recvq, w)
			}
			s.ws = append(s.ws, w)
		}
		m.park(fr, "select")
		if !s.fired {
			panic("select woke without a fired case")
		}
		idx = s.idx
		if s.closedPanic {
			m.goPanic(fr, "send on closed channel")
		}
		rv, rok = s.val, s.ok
	}
	r := tuple{int64(idx), rok}
	for i, st := range instr.States {
		if st.Dir == types.RecvOnly {
			var v value
			if i == idx {
				v = rv
			} else {
				v = zero(st.Chan.Type().Underlying().(*types.Chan).Elem())
			}
			r = append(r, v)
		}
	}
	return r
}

// ---- timers ----

func (m *machine) addTimer(t *timer) *timer {
	m.gseq++
	t.id = m.gseq
	t.active = true
	m.timers = append(m.timers, t)
	return t
}

func (m *machine) activeTimers() []*timer {
	var r []*timer
	for _, t := range m.timers {
		if t.active {
			r = append(r, t)
		}
	}
	sort.SliceStable(r, func(i, j int) bool { return r[i].when < r[j].when })
	return r
}

func (m *machine) fireIdleTimer() bool {
	ts := m.activeTimers()
	if len(ts) == 0 {
		return false
	}
	m.fireTimer(ts[0])
	return true
}

func (m *machine) fireTimer(t *timer) {
	if t.when > m.now {
		m.now = t.when
	}
	if t.period > 0 {
		t.when += t.period
	} else {
		t.active = false
	}
	switch {
	case t.sleeper != nil:
		m.ready(t.sleeper)
	case t.fn != nil:
		g := m.spawn(nil, t.fn, nil, "")
		g.name = fmt.Sprintf("timer%d:%s", t.id, t.what)
	case t.ch != nil:
		if len(t.ch.buf) < t.ch.cap || len(t.ch.recvq) > 0 {
			m.trySend(nil, t.ch, m.timeValue(m.now))
		}
	}
}
