package main

func init() {
	checks["C16"] = &checkDef{
		Level:       levelOther,
		Explanation: "Model values — symbolic integers (decimal text of 1..3 symbolic digits with sign for the text forms, arbitrary int64 for RESP3 integers), symbolic booleans, symbolic strings, lists, pair lists with possibly equal fields, scored members, scan pages, stream entries, XREAD results, FT.SEARCH documents, geo locations, pop results, nested values for ToAny — are encoded by reference encoders in the harness into the RESP2 and the RESP3 reply shape and read back with the real accessors (message.go). Oracle: the accessor returns the model value: AsInt64/ToInt64/AsUint64 the integer, AsBool (bool, integer ≠ 0, string == OK), ToString/AsBytes the payload, AsStrSlice/AsIntSlice/ToArray every element in order, AsStrMap/AsMap every field with the last value winning for repeated fields, AsZScores/AsZMPop members and scores in both shapes, AsScanEntry cursor and elements, AsXRangeEntry/AsXRangeSlice/AsXRead/AsXReadSlices ids and (ordered) fields in both shapes, AsFtSearch total/key/attributes in both shapes, AsGeosearch name/distance/hash/coordinates, AsLMPop, AsIntMap, ToFloat64/AsFloat64 on concrete decimals, ToAny's recursive conversion. Equalities on symbolic payloads are decided on terms (solver for any non-identical pair), so a swapped or dropped element is a satisfiable difference.",
		Assumptions: []string{"floating-point texts are concrete samples (float parsing is not bit-blasted)", "string payloads of 0..3 symbolic bytes"},
		Outside:     []string{"AsFtAggregate(Cursor), DecodeJSON/DecodeSliceOfJSON (encoding/json is a stub), FT.SEARCH with scores/no content flags, RESP3 attribute-carrying replies", "collections larger than 3 elements"},
		Bounds:      map[string]any{"quick": "collections of ≤ 3 elements, integers of ≤ 3 decimal digits in text form", "thorough": "same"},
		specs: func(tier string) []specRef {
			return []specRef{
				hsx(rootPkg, "VerifC16_scalars", nil, 1000000, 900, "int", "int63", "uint64", "neguint", "bool", "string", "slices", "maps", "zscores", "structured"),
				hsx(rootPkg, "VerifC16_structured", nil, 1000000, 900, "xread", "ftsearch", "geo", "misc", "toany"),
			}
		},
	}
}
