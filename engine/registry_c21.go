package main

func init() {
	checks["C21"] = &checkDef{
		Level:       levelOther,
		Explanation: "Real routing code with stub connections that log what they receive: standalone.Do/DoMulti/DoStream/DoMultiStream/Receive/pick (primary + 1..2 replicas, optional node selector), sentinelClient.Do/DoMulti/DoMultiCache/DoStream/DoMultiStream/Receive with pick/pickMulti/sendAllToReplica(Cache) (ReplicaOnly or not), clusterClient.Do/_pick with and without a replica slot table, and the placement of cluster batches by _pickMulti (DoMulti) and _pickMultiCache (DoMultiCache) over two slots with their own primary and replica, for both forms of the replica table that _refresh builds (all nodes when a ReadNodeSelector is set, else the single pre-selected node): every command is placed exactly once, on a replica only when the predicate opts that command in, otherwise on its slot's primary. The caller's SendToReplicas predicate answers a symbolic bool per command, selector functions return a symbolic int (also outside the candidate list); batches of 1..3 commands. Oracle: the whole call lands on exactly one node; that node is a replica only if the predicate is set and true for every command of the call (or the client is ReplicaOnly); a ReplicaOnly sentinel client never uses the master; a selector answer outside the candidate list (or naming index 0) means the primary.",
		Assumptions: []string{"stub connections; math/rand IntN for unselected replicas is a decision over the replica indexes"},
		Outside:     []string{"DoStream/DoMultiStream/Receive routing of cluster clients", "the replica slot table built by _refresh with ReplicaSelector / ReadNodeSelector / ReplicaOnly"},
		Bounds:      map[string]any{"quick": "batches of 1..3 commands, 1..2 replicas, selector answers in [-2,4]", "thorough": "same"},
		specs: func(tier string) []specRef {
			c := hsx(rootPkg, "VerifC21_cluster", nil, 100000, 900, "replica", "primary", "fallback")
			c.spec.Overrides = clusterOverrides
			return []specRef{
				hsx(rootPkg, "VerifC21_standalone", P{"max_batch": 3}, 100000, 900, "replica", "primary", "fallback", "stream", "receive", "multistream"),
				hsx(rootPkg, "VerifC21_sentinel", P{"max_batch": 3}, 100000, 900, "replica", "master", "stream", "receive", "multistream"),
				c,
				hsx(rootPkg, "VerifC21_clusterMulti", P{"max_batch": 3}, 1000000, 900, "multi", "multicache"),
			}
		},
	}
}
