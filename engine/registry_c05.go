package main

func init() {
	checks["C05"] = &checkDef{
		Level:       levelMC,
		Explanation: "Schedule-symbolic execution (delay-bounded scheduler, every context switch at a visible operation is a decision) of the real waiting paths: (1) pool.Acquire on an exhausted pool with a cancellable context, the canceller and the pool's own broadcast goroutine (VerifC05_poolCancel), also when the waiter re-enters the wait loop after a failed dial (VerifC05_poolRetry); (2) cacheEntry.Wait / adapterEntry.Wait on another caller's flight that is cancelled, completed or failed concurrently (VerifC05_cacheWait); (3) a real pipe (ring and flow-buffer queue, started in sync or pipelining state) over an in-memory connection whose server reads commands and never answers: Do and DoMulti with a context cancelled by another goroutine (VerifC05_pipeCtx); (4) Do, DoMulti, DoStream and Receive with a context that is already done write zero bytes to the connection (VerifC05_pipeDone). Oracle: the designated caller returns on every explored schedule with the context error (a path that ends with it parked while nothing can run is a HANG violation: 'returns shortly' is decided as 'needs no further environment event after the cancellation'), and the byte counter of the connection stays 0 for done contexts.",
		Assumptions: []string{"sequentially consistent memory; context switches only at visible operations", "the real context package is executed as code; timers fire only when nothing else can run (deadline contexts are represented by explicit cancellation)"},
		Trusted:     []string{"engine scheduler and sync/atomic/channel intrinsics", "verifConn: in-memory net.Conn written in the harness"},
		Outside:     []string{"schedules needing more than D delays", "retry back-off waits (retryer.WaitOrSkipRetry) and the deadline arithmetic of syncDo/syncDoMulti (conn.SetDeadline) are not modelled", "wall-clock latency"},
		Bounds:      map[string]any{"quick": "D = 3 (pool), 3 (cache wait), 2 (pipe)", "thorough": "D = 5 (pool), 4 (cache wait), 3 (pipe)"},
		specs: func(tier string) []specRef {
			return []specRef{
				hsd(rootPkg, "VerifC05_poolCancel", nil, q(tier, 3, 5), 3000000, 1800, "returned"),
				hsd(rootPkg, "VerifC05_poolRetry", nil, q(tier, 3, 5), 3000000, 1800, "cancelled", "gotwire"),
				hsd(rootPkg, "VerifC05_poolTwoWaiters", nil, q(tier, 3, 4), 3000000, 3000, "cancelled", "gotwire"),
				hsd(rootPkg, "VerifC05_cacheWait", nil, q(tier, 3, 4), 3000000, 1800, "cancelled", "delivered", "failed"),
				hsd(rootPkg, "VerifC05_pipeCtx", nil, q(tier, 2, 3), 3000000, 3000, "returned"),
				hsd(rootPkg, "VerifC05_pipeDone", nil, q(tier, 2, 3), 3000000, 3000, "nothing"),
			}
		},
	}
}
