package main

const lockPkg = "github.com/redis/rueidis/rueidislock"

func init() {
	checks["C34"] = &checkDef{
		Level:       levelMC,
		Explanation: "PARTIAL claim. (1) Single holder with faults. The real rueidislock locker (NewLocker, TryWithContext, try/acquire/monitoring, script, onInvalidations, gates; lock.go) runs in the scheduler of the symbolic executor against the Redis model; the real acquire/extend/delete script texts are executed by the harness-side Lua interpreter and keys expire by the virtual clock that also drives the locker's timers. Pre-state: every one of the 3 keys is free or held by another client (decision). Events after a successful acquisition (decisions, bounded): time passes by one extend interval (timers fire, extensions run), another client deletes a key, another client overwrites a key, a spurious invalidation; each followed by the invalidation push the server would send; up to F script calls fail with a transport error (decision at every EVAL). Oracle: a successful attempt owns a majority and has a live context; a failed attempt ends with no live context and no key left behind; whenever a delete-script call is about to release a key the holder owns and that release leaves it with less than a majority, the holder's context is already done (this is the safety-relevant reading of 'done before any of its keys is released': a minority key given up after an extension error while the majority is still held does not open the lock to anybody); after every event, once the background goroutines have settled, a holder owning less than a majority has a done context; cancel() returns only after every key of the holder is released. (2) Hand-over between two lockers (two clients with their own connection) on one Redis model that also implements server-assisted tracking as the lockers configure it (a GET inside a script makes the connection a tracker of the key; SET/DEL/expiry push one invalidation to every tracker, delivered asynchronously and in order by one goroutine per connection): the first locker holds the lock, the second calls WithContext (it fails to reach a majority and parks on its gate, or is still trying — decision), the first releases; delay-bounded schedules of all goroutines (monitors, background acquisition, push delivery, waiter). Oracle: the waiter returns from WithContext with a live context (no missed wake-up: a schedule in which it stays parked is reported as a deadlock), and at that moment the first holder's context is done.",
		Assumptions: []string{"the Lua interpreter and the Redis model (SET NX/PX/PXAT, GET, DEL, PEXPIREAT with expiry by the virtual clock) are harness code", "invalidation pushes are delivered by the harness right after the modification they announce", "KeyMajority 2 (3 keys), default validity 5 s / extend interval 2.5 s"},
		Trusted:     []string{"harness/luasym.go.txt"},
		Outside:     []string{"mutual exclusion under lease expiry, clock skew and lost extensions with two or more contending lockers (only the fault-free hand-over of (2) is explored for two lockers)", "ForceWithContext, Close racing with holders", "events arriving while the holder is still acquiring its remaining keys in the background (TryWithContext returns at the majority): the locker counts a not-yet-attempted key as owned, so a key given up in that short window can leave it below a majority until the remaining attempt settles — observed while building this check, not claimed", "clock skew between client and server"},
		Bounds:      map[string]any{"quick": "(1) 2 events, 1 transport fault, delay budget 0; (2) delay budget 1", "thorough": "(1) 3 events, 1 fault, delay budget 0; (2) delay budget 1 (budget 2 did not finish in 20 minutes)"},
		specs: func(tier string) []specRef {
			r := hsd(lockPkg, "VerifC34_holder", P{"events": q(tier, int64(2), 3), "faults": 1}, 0, 3000000, 3000, "locked", "notlocked", "extended", "deleted", "takenover", "lost", "release", "released", "fault")
			r.spec.Overrides = luaOverrides
			h := hsd(lockPkg, "VerifC34_handover", nil, 1, 3000000, 3000, "parked", "handover")
			h.spec.Overrides = luaOverrides
			return []specRef{r, h}
		},
	}
}
