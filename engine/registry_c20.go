package main

func init() {
	checks["C20"] = &checkDef{
		Level:       levelMC,
		Explanation: "Real clusterClient.DoMulti (_pickMulti, doretry, doresultfn, askingMulti, redirectOrNew, the per-node goroutines) over two node simulators that log what they receive and model a migrating slot the way Redis answers: the source node's slot is stable, has MOVED away, or is migrating (each key either still served or answered ASK); inside MULTI...EXEC a redirected command makes EXEC answer EXECABORT; the target node executes what it gets. Batches: 2..3 plain writes in one slot, split across both nodes, or over two slots of the same source node with independent states (one slot already MOVED while the other is still migrating, ASK, to the same target), or MULTI + two writes + EXEC optionally followed by a plain write; the cached slot map either knows the batch's slots or has a hole for them (the first pick fails, the forced refresh — overridden to install the slots — is followed by the second pick). Oracle: one result per command, result i is the final reply to command i (EXEC element j is the reply to the j-th queued command); on every node's log a MULTI block is contiguous, complete and closed on the node that received it, and no command of a transaction is ever sent outside its block; an ASK-redirected unit is preceded by ASKING on the named node; redirected commands reach the named node.",
		Assumptions: []string{"the topology refresh triggered by redirects is overridden by a no-op (C19 covers it)", "delay bound D on the per-node goroutines"},
		Trusted:     []string{"node simulators (harness code) modelling MOVED/ASK/EXECABORT as documented by Redis"},
		Outside:     []string{"DoMultiCache batches (doretrycache/resultcachefn/askingMultiCache)", "retries after LOADING/transport errors inside batches, connection-lifetime recovery (errConnExpired) inside batches", "more than two nodes, more than one transaction per batch"},
		Bounds:      map[string]any{"quick": "batches of 2..5 commands, two nodes, D = 1", "thorough": "D = 2"},
		specs: func(tier string) []specRef {
			r := hsd(rootPkg, "VerifC20_batch", nil, q(tier, 1, 2), 3000000, 3000, "done", "redirected", "tx", "gap")
			r.spec.Overrides = merged(clusterOverrides, map[string]string{"(*github.com/redis/rueidis.clusterClient).refresh": "verifRefreshFill"})
			return []specRef{r}
		},
	}
}
