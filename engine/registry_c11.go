package main

func init() {
	checks["C11"] = &checkDef{
		Level:       levelMC,
		Explanation: "Real pipe.DoCache on MGET (doCacheMGet: per-key Flight, rewritten MGET of the missed keys inside OPTIN/MULTI/PTTL…/EXEC, refill of the positional result) and pipe.DoMultiCache (lru.Flights, per-command CSC transactions), together with the reader's commit branches and the real lru store, over an in-memory connection with a scripted server whose value of key k is k:generation. Each of three keys is already cached or not (by a preceding DoCache), the batch has 2..3 keys drawn with repetition (duplicates inside one batch), ring or flow-buffer queue. Optionally another caller already owns an in-flight request for one uncached key and that request fails while DoMultiCache waits for it (the waiting position must carry that failure, all other positions their own replies). Oracle: element / result i is the server's value of key i. The multi-key helpers on top (MGetCache, JsonMGetCache) are C31's check; VerifC11_mux drives the real mux.DoMultiCache (PipelineMultiplex=2: four connections, batching by slot&mask, index maps, parallel refill) over stub wires that echo the key: every batch of 2..4 commands over six keys. Cluster nodes (clusterClient.DoMultiCache) are exercised under C19/C20's harnesses only for routing, not for positions.",
		Assumptions: []string{"delay bound 0 (sequential caller, server goroutine); an honest server"},
		Trusted:     []string{"scripted CSC server, verifConn"},
		Outside:     []string{"a foreign in-flight request that succeeds (only its failure is modelled); foreign requests during the MGET path", "JSON.MGET, cluster DoMultiCache positions", "mux sub-batch results that are transport errors (wire replacement)"},
		Bounds:      map[string]any{"quick": "3 keys × cached/not, batches of 2..3 keys with repetition, MGET and DoMultiCache", "thorough": "batches of 2..4 keys; mux batches of 2..5"},
		specs: func(tier string) []specRef {
			return []specRef{hsd(rootPkg, "VerifC11_batch", P{"max_keys": q(tier, int64(3), 4)}, 0, 3000000, 3000, "mget", "multicache", "foreignfailed"),
				hsd(rootPkg, "VerifC11_mux", P{"max_keys": q(tier, int64(4), 5)}, 0, 3000000, 3000, "muxmulticache")}
		},
	}
}
