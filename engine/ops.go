package main

// Operators on (possibly symbolic) values: arithmetic, comparisons, conversions, memory.

import (
	"fmt"
	"go/token"
	"go/types"
	"math"
	"strings"
	"unicode/utf8"

	"golang.org/x/tools/go/ssa"
)

func (m *machine) toTerm(v value, w int) *term {
	switch v := v.(type) {
	case int64:
		return m.tf.bv(uint64(v), w)
	case bool:
		return m.tf.boolc(v)
	case *sym:
		return v.t
	}
	panic(fmt.Sprintf("toTerm: %T", v))
}

func (m *machine) fromTerm(t *term, signed bool) value {
	if t.isConst() {
		if t.w == 0 {
			return t.c != 0
		}
		return canon(t.c, t.w, signed)
	}
	return &sym{t: t}
}

func isSym(v value) bool { _, ok := v.(*sym); return ok }

// ---- binary operators ----

func (m *machine) binop(fr *frame, op token.Token, xt types.Type, x, y value, yt types.Type) value {
	switch op {
	case token.EQL:
		return m.fromTerm(m.eqTerm(fr, xt, x, y), false)
	case token.NEQ:
		return m.fromTerm(m.tf.not(m.eqTerm(fr, xt, x, y)), false)
	}
	b := basicOf(xt)
	if b == nil {
		panic(fmt.Sprintf("binop %v on %v", op, xt))
	}
	switch {
	case b.Info()&types.IsInteger != 0:
		return m.intBinop(fr, op, b, x, y, yt)
	case b.Info()&types.IsFloat != 0:
		xf, ok1 := x.(float64)
		yf, ok2 := y.(float64)
		if !ok1 || !ok2 {
			// §2.9(c): float arithmetic on symbolic operands is havoc (fresh unconstrained result)
			m.havocs++
			switch op {
			case token.LSS, token.LEQ, token.GTR, token.GEQ:
				return &sym{t: m.fresh("fhavoc", 0)}
			}
			return &sym{t: m.fresh("fhavoc", 64)}
		}
		var r float64
		switch op {
		case token.ADD:
			r = xf + yf
		case token.SUB:
			r = xf - yf
		case token.MUL:
			r = xf * yf
		case token.QUO:
			r = xf / yf
		case token.LSS:
			return xf < yf
		case token.LEQ:
			return xf <= yf
		case token.GTR:
			return xf > yf
		case token.GEQ:
			return xf >= yf
		default:
			panic("float binop " + op.String())
		}
		if b.Kind() == types.Float32 {
			if op == token.ADD || op == token.SUB || op == token.MUL || op == token.QUO {
				// float32 arithmetic: operands are exact float32 values; rounding the float64
				// result once is exact for + - * / (double rounding is innocuous for binary32 via binary64)
				r = float64(float32(r))
			}
		}
		return r
	case b.Info()&types.IsString != 0:
		switch op {
		case token.ADD:
			xs, ok1 := x.(string)
			ys, ok2 := y.(string)
			if ok1 && ok2 {
				return xs + ys
			}
			return mkStr(append(append([]value{}, strBytes(x)...), strBytes(y)...))
		case token.LSS, token.LEQ, token.GTR, token.GEQ:
			xs, ok1 := x.(string)
			ys, ok2 := y.(string)
			if ok1 && ok2 {
				switch op {
				case token.LSS:
					return xs < ys
				case token.LEQ:
					return xs <= ys
				case token.GTR:
					return xs > ys
				default:
					return xs >= ys
				}
			}
			c := m.strCompare(x, y)
			switch op {
			case token.LSS:
				return c < 0
			case token.LEQ:
				return c <= 0
			case token.GTR:
				return c > 0
			default:
				return c >= 0
			}
		}
	case b.Info()&types.IsComplex != 0:
		xc, yc := x.(complex128), y.(complex128)
		switch op {
		case token.ADD:
			return xc + yc
		case token.SUB:
			return xc - yc
		case token.MUL:
			return xc * yc
		case token.QUO:
			return xc / yc
		}
	case b.Info()&types.IsBoolean != 0:
		// only == and != exist, handled above
	}
	panic(fmt.Sprintf("binop %v on %v", op, xt))
}

// strCompare compares strings with symbolic bytes by forking on the first difference.
func (m *machine) strCompare(x, y value) int {
	xb, yb := strBytes(x), strBytes(y)
	for i := 0; i < len(xb) && i < len(yb); i++ {
		a, b := m.toTerm(xb[i], 8), m.toTerm(yb[i], 8)
		if m.decideBool(m.tf.eq(a, b), "strcmp.eq") {
			continue
		}
		if m.decideBool(m.tf.cmp("bvult", a, b), "strcmp.lt") {
			return -1
		}
		return 1
	}
	switch {
	case len(xb) < len(yb):
		return -1
	case len(xb) > len(yb):
		return 1
	}
	return 0
}

func (m *machine) intBinop(fr *frame, op token.Token, b *types.Basic, x, y value, yt types.Type) value {
	w, signed := widthOf(b)
	xi, xok := x.(int64)
	yi, yok := y.(int64)
	if xok && yok {
		ux, uy := uint64(xi), uint64(yi)
		switch op {
		case token.ADD:
			return canon(ux+uy, w, signed)
		case token.SUB:
			return canon(ux-uy, w, signed)
		case token.MUL:
			return canon(ux*uy, w, signed)
		case token.QUO:
			if yi == 0 {
				m.goPanic(fr, "integer divide by zero")
			}
			if signed {
				if yi == -1 {
					return canon(uint64(-xi), w, true)
				}
				return canon(uint64(xi/yi), w, true)
			}
			return canon(ux/uy, w, false)
		case token.REM:
			if yi == 0 {
				m.goPanic(fr, "integer divide by zero")
			}
			if signed {
				if yi == -1 {
					return int64(0)
				}
				return canon(uint64(xi%yi), w, true)
			}
			return canon(ux%uy, w, false)
		case token.AND:
			return canon(ux&uy, w, signed)
		case token.OR:
			return canon(ux|uy, w, signed)
		case token.XOR:
			return canon(ux^uy, w, signed)
		case token.AND_NOT:
			return canon(ux&^uy, w, signed)
		case token.SHL, token.SHR:
			yb := basicOf(yt)
			_, ysigned := widthOf(yb)
			if ysigned && yi < 0 {
				m.goPanic(fr, "negative shift amount")
			}
			if op == token.SHL {
				if uy >= uint64(w) {
					return int64(0)
				}
				return canon(ux<<uy, w, signed)
			}
			if signed {
				if uy >= 64 {
					uy = 63
				}
				return canon(uint64(xi>>uy), w, true)
			}
			if uy >= uint64(w) {
				return int64(0)
			}
			return canon((ux&mask(w))>>uy, w, false)
		case token.LSS:
			if signed {
				return xi < yi
			}
			return ux < uy
		case token.LEQ:
			if signed {
				return xi <= yi
			}
			return ux <= uy
		case token.GTR:
			if signed {
				return xi > yi
			}
			return ux > uy
		case token.GEQ:
			if signed {
				return xi >= yi
			}
			return ux >= uy
		}
		panic("int binop " + op.String())
	}
	// symbolic
	f := m.tf
	xtm := m.toTerm(x, w)
	var ytm *term
	if op == token.SHL || op == token.SHR {
		yb := basicOf(yt)
		yw, ysigned := widthOf(yb)
		yt0 := m.toTerm(y, yw)
		if ysigned && !yt0.isConst() {
			m.asserts++
			m.symAsserts++
			if m.decideBool(f.cmp("bvslt", yt0, f.bv(0, yw)), "shift<0") {
				m.goPanic(fr, "negative shift amount")
			}
		} else if ysigned && sext64(yt0.c, yw) < 0 {
			m.goPanic(fr, "negative shift amount")
		}
		// bring the shift count to width w, saturating
		if yw > w {
			big := f.cmp("bvule", f.bv(uint64(w), yw), yt0)
			ytm = f.ite(big, f.bv(uint64(w), w), f.extract(yt0, w-1, 0))
		} else {
			ytm = f.zext(yt0, w)
		}
	} else {
		ytm = m.toTerm(y, w)
	}
	var r *term
	switch op {
	case token.ADD:
		r = f.bin("bvadd", xtm, ytm)
	case token.SUB:
		r = f.bin("bvsub", xtm, ytm)
	case token.MUL:
		r = f.bin("bvmul", xtm, ytm)
	case token.QUO, token.REM:
		if ytm.isConst() {
			if ytm.c == 0 {
				m.goPanic(fr, "integer divide by zero")
			}
		} else {
			m.asserts++
			m.symAsserts++
			if m.decideBool(f.eq(ytm, f.bv(0, w)), "div0") {
				m.goPanic(fr, "integer divide by zero")
			}
		}
		switch {
		case op == token.QUO && signed:
			r = f.bin("bvsdiv", xtm, ytm)
		case op == token.QUO:
			r = f.bin("bvudiv", xtm, ytm)
		case signed:
			r = f.bin("bvsrem", xtm, ytm)
		default:
			r = f.bin("bvurem", xtm, ytm)
		}
	case token.AND:
		r = f.bin("bvand", xtm, ytm)
	case token.OR:
		r = f.bin("bvor", xtm, ytm)
	case token.XOR:
		r = f.bin("bvxor", xtm, ytm)
	case token.AND_NOT:
		r = f.bin("bvand", xtm, f.bvnot(ytm))
	case token.SHL:
		r = f.bin("bvshl", xtm, ytm)
	case token.SHR:
		if signed {
			r = f.bin("bvashr", xtm, ytm)
		} else {
			r = f.bin("bvlshr", xtm, ytm)
		}
	case token.LSS:
		if signed {
			return m.fromTerm(f.cmp("bvslt", xtm, ytm), false)
		}
		return m.fromTerm(f.cmp("bvult", xtm, ytm), false)
	case token.LEQ:
		if signed {
			return m.fromTerm(f.cmp("bvsle", xtm, ytm), false)
		}
		return m.fromTerm(f.cmp("bvule", xtm, ytm), false)
	case token.GTR:
		if signed {
			return m.fromTerm(f.cmp("bvslt", ytm, xtm), false)
		}
		return m.fromTerm(f.cmp("bvult", ytm, xtm), false)
	case token.GEQ:
		if signed {
			return m.fromTerm(f.cmp("bvsle", ytm, xtm), false)
		}
		return m.fromTerm(f.cmp("bvule", ytm, xtm), false)
	default:
		panic("int binop " + op.String())
	}
	return m.fromTerm(r, signed)
}

// eqTerm returns the Bool term "x == y" for values of static type t.
func (m *machine) eqTerm(fr *frame, t types.Type, x, y value) *term {
	f := m.tf
	if b := basicOf(t); b != nil && b.Info()&types.IsFloat != 0 && (isSym(x) || isSym(y)) && m.havocs > 0 {
		// IEEE equality on havoc'd floats is itself unconstrained (bit equality would be wrong for NaN/±0)
		m.havocs++
		return m.fresh("fhavoc", 0)
	}
	if b := basicOf(t); b != nil && b.Info()&types.IsFloat != 0 && (isSym(x) || isSym(y)) {
		// exact IEEE-754 equality on symbolic bit patterns (values built by Float32/64frombits):
		// neither operand is a NaN, and the patterns are equal or both are zeros of either sign
		w := 64
		if b.Kind() == types.Float32 {
			w = 32
		}
		bits := func(v value) *term {
			switch v := v.(type) {
			case *sym:
				if v.t.w == w {
					return v.t
				}
			case float64:
				if w == 32 {
					return f.bv(uint64(math.Float32bits(float32(v))), 32)
				}
				return f.bv(math.Float64bits(v), 64)
			}
			panic(unsupported("float comparison with symbolic bits of another width"))
		}
		xt, yt := bits(x), bits(y)
		var expMask, fracMask, absMask uint64 = 0x7ff0000000000000, 0x000fffffffffffff, 0x7fffffffffffffff
		if w == 32 {
			expMask, fracMask, absMask = 0x7f800000, 0x007fffff, 0x7fffffff
		}
		isNaN := func(t *term) *term {
			return f.and(f.eq(f.bin("bvand", t, f.bv(expMask, w)), f.bv(expMask, w)), f.not(f.eq(f.bin("bvand", t, f.bv(fracMask, w)), f.bv(0, w))))
		}
		bothZero := f.eq(f.bin("bvand", f.bin("bvor", xt, yt), f.bv(absMask, w)), f.bv(0, w))
		return f.and(f.and(f.not(isNaN(xt)), f.not(isNaN(yt))), f.or(bothZero, f.eq(xt, yt)))
	}
	switch xv := x.(type) {
	case bool:
		if yv, ok := y.(bool); ok {
			return f.boolc(xv == yv)
		}
		return f.eq(f.boolc(xv), y.(*sym).t)
	case int64:
		if yv, ok := y.(int64); ok {
			return f.boolc(xv == yv)
		}
		ys := y.(*sym)
		return f.eq(f.bv(uint64(xv), ys.t.w), ys.t)
	case *sym:
		return f.eq(xv.t, m.toTerm(y, xv.t.w))
	case float64:
		if yv, ok := y.(float64); ok {
			return f.boolc(xv == yv)
		}
		panic(unsupported("float comparison with symbolic bits"))
	case complex128:
		return f.boolc(xv == y.(complex128))
	case string:
		if yv, ok := y.(string); ok {
			return f.boolc(xv == yv)
		}
		return m.strEq(x, y)
	case *sstr:
		return m.strEq(x, y)
	case ptr:
		yv := y.(ptr)
		if xv.symIdx != nil {
			xv = m.concPtr(fr, xv)
		}
		if yv.symIdx != nil {
			yv = m.concPtr(fr, yv)
		}
		return f.boolc(xv.c == yv.c)
	case slice:
		yv := y.(slice)
		// slices are only comparable to nil
		return f.boolc(xv.isNil() && yv.isNil())
	case *mapobj:
		return f.boolc(xv == y.(*mapobj))
	case *chanobj:
		return f.boolc(xv == y.(*chanobj))
	case *ssa.Function:
		yf, ok := y.(*ssa.Function)
		return f.boolc(ok && xv == yf)
	case *closure:
		yc, ok := y.(*closure)
		return f.boolc(ok && xv == yc)
	case *ssa.Builtin:
		return f.boolc(x == y)
	case *boundMethod:
		return f.boolc(false)
	case iface:
		yv := y.(iface)
		if xv.t == nil || yv.t == nil {
			return f.boolc(xv.t == nil && yv.t == nil)
		}
		if !types.Identical(xv.t, yv.t) {
			return f.boolc(false)
		}
		if !types.Comparable(xv.t) {
			m.goPanic(fr, "comparing uncomparable type "+xv.t.String())
		}
		return m.eqTerm(fr, xv.t, xv.v, yv.v)
	case structure:
		yv := y.(structure)
		st := t.Underlying().(*types.Struct)
		r := f.boolc(true)
		for i := range xv {
			if st.Field(i).Name() == "_" {
				continue
			}
			r = f.and(r, m.eqTerm(fr, st.Field(i).Type(), xv[i], yv[i]))
			if r.isFalse() {
				return r
			}
		}
		return r
	case array:
		yv := y.(array)
		et := t.Underlying().(*types.Array).Elem()
		r := f.boolc(true)
		for i := range xv {
			r = f.and(r, m.eqTerm(fr, et, xv[i], yv[i]))
			if r.isFalse() {
				return r
			}
		}
		return r
	case *hostObj:
		return f.boolc(x == y)
	case nil:
		return f.boolc(y == nil)
	}
	panic(fmt.Sprintf("eqTerm: %T vs %T (%v)", x, y, t))
}

func (m *machine) strEq(x, y value) *term {
	f := m.tf
	xb, yb := strBytes(x), strBytes(y)
	if len(xb) != len(yb) {
		return f.boolc(false)
	}
	r := f.boolc(true)
	for i := range xb {
		r = f.and(r, f.eq(m.toTerm(xb[i], 8), m.toTerm(yb[i], 8)))
		if r.isFalse() {
			return r
		}
	}
	return r
}

// ---- unary operators ----

func (m *machine) unop(fr *frame, instr *ssa.UnOp) value {
	x := fr.get(instr.X)
	switch instr.Op {
	case token.MUL: // load
		p := x.(ptr)
		return m.load(fr, p)
	case token.ARROW:
		return m.chanRecv(fr, x, instr.CommaOk)
	case token.NOT:
		switch x := x.(type) {
		case bool:
			return !x
		case *sym:
			return m.fromTerm(m.tf.not(x.t), false)
		}
	case token.SUB:
		b := basicOf(instr.X.Type())
		switch x := x.(type) {
		case int64:
			w, signed := widthOf(b)
			return canon(uint64(-x), w, signed)
		case float64:
			return -x
		case complex128:
			return -x
		case *sym:
			if b.Info()&types.IsFloat != 0 {
				m.havocs++
				return &sym{t: m.fresh("fhavoc", 64)}
			}
			_, signed := widthOf(b)
			return m.fromTerm(m.tf.neg(x.t), signed)
		}
	case token.XOR:
		b := basicOf(instr.X.Type())
		w, signed := widthOf(b)
		switch x := x.(type) {
		case int64:
			return canon(^uint64(x), w, signed)
		case *sym:
			return m.fromTerm(m.tf.bvnot(x.t), signed)
		}
	}
	panic(fmt.Sprintf("unop %v on %T", instr.Op, x))
}

// ---- memory ----

func scalarLike(v value) bool {
	switch v.(type) {
	case int64, bool, *sym:
		return true
	}
	return false
}

func (m *machine) load(fr *frame, p ptr) value {
	if p.symIdx != nil {
		win := p.win
		all := true
		for _, e := range win {
			if !scalarLike(e) {
				all = false
				break
			}
		}
		if all && len(win) > 0 && len(win) <= 1024 {
			// ite chain over the window
			w := 0
			isBool := false
			switch e := win[0].(type) {
			case bool:
				isBool = true
			case *sym:
				w = e.t.w
			}
			if b := basicOf(p.elemT); b != nil && b.Info()&types.IsInteger != 0 {
				w, _ = widthOf(b)
			}
			_ = isBool
			idx := p.symIdx.t
			var r *term
			for i := len(win) - 1; i >= 0; i-- {
				et := m.toTerm(win[i], w)
				if r == nil {
					r = et
					continue
				}
				r = m.tf.ite(m.tf.eq(idx, m.tf.bv(uint64(i), idx.w)), et, r)
			}
			signed := false
			if b := basicOf(p.elemT); b != nil && b.Info()&types.IsInteger != 0 {
				_, signed = widthOf(b)
			}
			return m.fromTerm(r, signed)
		}
		p = m.concPtr(fr, p)
	}
	if p.c == nil {
		m.goPanic(fr, "invalid memory address or nil pointer dereference")
	}
	m.force(fr, p.c)
	return copyVal(*p.c)
}

// force materialises a lazy cell in place.
func (m *machine) force(fr *frame, c *value) {
	lc, ok := (*c).(*lazyCell)
	if !ok {
		return
	}
	if !lc.done {
		saved := m.lazyKey
		m.lazyKey = lc.key
		m.nondetLog = append(m.nondetLog, nondetRec{key: lc.key, kind: "lazy", conc: []int64{1}})
		lc.val = m.callValue(m.cur, fr, lc.gen, []value{int64(lc.idx)}, nil)
		m.lazyKey = saved
		lc.done = true
	}
	*c = copyVal(lc.val)
}

func (m *machine) store(fr *frame, addr value, v value) {
	p := addr.(ptr)
	if p.symIdx != nil {
		p = m.concPtr(fr, p)
	}
	if p.c == nil {
		m.goPanic(fr, "invalid memory address or nil pointer dereference")
	}
	*p.c = copyVal(v)
}

// concPtr resolves a symbolic-index pointer to a concrete cell (forking per feasible index).
func (m *machine) concPtr(fr *frame, p ptr) ptr {
	if p.symIdx == nil {
		return p
	}
	i := m.concretize(p.symIdx, false, "index")
	return ptr{o: p.o, c: &p.win[i]}
}

func (m *machine) makeSlice(et types.Type, n, c int) slice {
	a := make(array, c)
	z := zero(et)
	switch z.(type) {
	case structure, array:
		for i := range a {
			a[i] = zero(et)
		}
	default:
		for i := range a {
			a[i] = z
		}
	}
	o := m.newObject(a, "slice")
	return slice{o: o, off: 0, len: n, cap: c}
}

func (m *machine) sliceFromValues(vs []value) slice {
	a := make(array, len(vs))
	copy(a, vs)
	o := m.newObject(a, "slice")
	return slice{o: o, len: len(vs), cap: len(vs)}
}

func (m *machine) bytesFromString(s value) slice {
	return m.sliceFromValues(strBytes(s))
}

// checkIndex handles a possibly symbolic index against a concrete length. It returns the
// concrete index, or -1 together with the in-bounds symbolic index.
func (m *machine) checkIndex(fr *frame, idx value, n int, it types.Type) (int, *sym) {
	switch i := idx.(type) {
	case int64:
		if i < 0 || i >= int64(n) {
			m.goPanic(fr, fmt.Sprintf("index out of range [%d] with length %d", i, n))
		}
		return int(i), nil
	case *sym:
		t64 := i.t
		if t64.w < 64 {
			signed := false
			if b := basicOf(it); b != nil && b.Info()&types.IsInteger != 0 {
				_, signed = widthOf(b)
			}
			if signed {
				t64 = m.tf.sext(t64, 64)
			} else {
				t64 = m.tf.zext(t64, 64)
			}
		}
		inb := m.tf.cmp("bvult", t64, m.tf.bv(uint64(n), 64)) // unsigned compare also rejects negatives
		m.asserts++
		m.symAsserts++
		if !m.decideBool(inb, "index-in-bounds") {
			m.goPanic(fr, fmt.Sprintf("index out of range [symbolic] with length %d", n))
		}
		if n == 1 {
			return 0, nil
		}
		return -1, i
	}
	panic(fmt.Sprintf("checkIndex: %T", idx))
}

func (m *machine) indexAddr(fr *frame, instr *ssa.IndexAddr) value {
	x := fr.get(instr.X)
	idx := fr.get(instr.Index)
	var win []value
	var o *object
	var et types.Type
	switch x := x.(type) {
	case slice:
		win = x.elems()
		o = x.o
		et = instr.X.Type().Underlying().(*types.Slice).Elem()
	case ptr:
		if x.isNil() {
			m.goPanic(fr, "invalid memory address or nil pointer dereference")
		}
		x = m.concPtr(fr, x)
		win = (*x.c).(array)
		o = x.o
		et = instr.X.Type().Underlying().(*types.Pointer).Elem().Underlying().(*types.Array).Elem()
	default:
		panic(fmt.Sprintf("indexAddr: %T", x))
	}
	i, s := m.checkIndex(fr, idx, len(win), instr.Index.Type())
	if s != nil {
		return ptr{o: o, symIdx: s, win: win, elemT: et}
	}
	return ptr{o: o, c: &win[i]}
}

func (m *machine) indexOp(fr *frame, instr *ssa.Index) value {
	x := fr.get(instr.X)
	idx := fr.get(instr.Index)
	switch x := x.(type) {
	case array:
		i, s := m.checkIndex(fr, idx, len(x), instr.Index.Type())
		if s != nil {
			et := instr.X.Type().Underlying().(*types.Array).Elem()
			return m.load(fr, ptr{symIdx: s, win: x, elemT: et})
		}
		return copyVal(x[i])
	case string, *sstr:
		return m.strIndex(fr, x, idx, instr.Index.Type())
	}
	panic(fmt.Sprintf("index: %T", x))
}

func (m *machine) strIndex(fr *frame, x value, idx value, it types.Type) value {
	n := strLen(x)
	i, s := m.checkIndex(fr, idx, n, it)
	if s != nil {
		return m.load(fr, ptr{symIdx: s, win: strBytes(x), elemT: types.Typ[types.Uint8]})
	}
	switch x := x.(type) {
	case string:
		return int64(x[i])
	case *sstr:
		return x.b[i]
	}
	panic("strIndex")
}

func (m *machine) sliceOp(fr *frame, instr *ssa.Slice) value {
	x := fr.get(instr.X)
	lo, hi, max := int64(0), int64(-1), int64(-1)
	if instr.Low != nil {
		lo = m.concInt(fr.get(instr.Low), "slice low")
	}
	if instr.High != nil {
		hi = m.concInt(fr.get(instr.High), "slice high")
	}
	if instr.Max != nil {
		max = m.concInt(fr.get(instr.Max), "slice max")
	}
	bad := func(l, c int) {
		m.goPanic(fr, fmt.Sprintf("slice bounds out of range [%d:%d:%d] with len %d cap %d", lo, hi, max, l, c))
	}
	switch x := x.(type) {
	case string:
		if hi < 0 {
			hi = int64(len(x))
		}
		if lo < 0 || lo > hi || hi > int64(len(x)) {
			bad(len(x), len(x))
		}
		return x[lo:hi]
	case *sstr:
		if hi < 0 {
			hi = int64(len(x.b))
		}
		if lo < 0 || lo > hi || hi > int64(len(x.b)) {
			bad(len(x.b), len(x.b))
		}
		return mkStr(x.b[lo:hi])
	case slice:
		if hi < 0 {
			hi = int64(x.len)
		}
		if max < 0 {
			max = int64(x.cap)
		}
		if lo < 0 || lo > hi || hi > max || max > int64(x.cap) {
			bad(x.len, x.cap)
		}
		if x.o == nil {
			return slice{}
		}
		return slice{o: x.o, off: x.off + int(lo), len: int(hi - lo), cap: int(max - lo)}
	case ptr: // *array
		if x.isNil() {
			m.goPanic(fr, "invalid memory address or nil pointer dereference")
		}
		x = m.concPtr(fr, x)
		a := (*x.c).(array)
		if hi < 0 {
			hi = int64(len(a))
		}
		if max < 0 {
			max = int64(len(a))
		}
		if lo < 0 || lo > hi || hi > max || max > int64(len(a)) {
			bad(len(a), len(a))
		}
		// the array must be an object of its own for a slice to alias it
		o, off := m.arrayObject(x, a)
		return slice{o: o, off: off + int(lo), len: int(hi - lo), cap: int(max - lo)}
	}
	panic(fmt.Sprintf("slice: %T", x))
}

// arrayObject returns an object whose value is (an array containing) a, for aliasing slices
// of arrays that are embedded in other objects.
func (m *machine) arrayObject(p ptr, a array) (*object, int) {
	if oa, ok := p.o.v.(array); ok && len(oa) > 0 && len(a) > 0 && &oa[0] == &a[0] {
		return p.o, 0
	}
	if len(a) == 0 {
		return m.newObject(array{}, "empty"), 0
	}
	// embedded array: wrap it in a view object sharing the same cells
	return &object{v: a, id: -1, what: "view"}, 0
}

func (m *machine) sliceToArrayPointer(fr *frame, t types.Type, x value) value {
	s := x.(slice)
	n := int(t.Underlying().(*types.Pointer).Elem().Underlying().(*types.Array).Len())
	if s.len < n {
		m.goPanic(fr, fmt.Sprintf("cannot convert slice with length %d to array or pointer to array with length %d", s.len, n))
	}
	if s.o == nil {
		return ptr{}
	}
	// view object over the same cells
	a := s.o.v.(array)[s.off : s.off+n : s.off+n]
	o := &object{v: a, id: -1, what: "view"}
	return ptr{o: o, c: &o.v}
}

// ---- conversions ----

func (m *machine) conv(fr *frame, dst, src types.Type, x value) value {
	ud, us := dst.Underlying(), src.Underlying()
	// pointer <-> unsafe.Pointer
	switch ud.(type) {
	case *types.Pointer:
		if p, ok := x.(ptr); ok {
			return p
		}
		if i, ok := x.(int64); ok && i == 0 {
			return ptr{}
		}
		panic(unsupported(fmt.Sprintf("conversion %v -> %v", src, dst)))
	case *types.Slice:
		// string -> []byte / []rune
		if b := basicOf(us); b != nil && b.Info()&types.IsString != 0 {
			et := ud.(*types.Slice).Elem().Underlying().(*types.Basic)
			if et.Kind() == types.Uint8 {
				return m.bytesFromString(x)
			}
			s, ok := x.(string)
			if !ok {
				panic(unsupported("[]rune of symbolic string"))
			}
			var vs []value
			for _, r := range s {
				vs = append(vs, int64(r))
			}
			return m.sliceFromValues(vs)
		}
		return x
	case *types.Basic:
	default:
		return x
	}
	bd := ud.(*types.Basic)
	if bd.Kind() == types.UnsafePointer {
		switch x := x.(type) {
		case ptr:
			return x
		case int64:
			if x == 0 {
				return ptr{}
			}
		}
		panic(unsupported(fmt.Sprintf("conversion %v -> unsafe.Pointer", src)))
	}
	if bd.Info()&types.IsString != 0 {
		switch sv := us.(type) {
		case *types.Basic:
			if sv.Info()&types.IsString != 0 {
				return x
			}
			if sv.Info()&types.IsInteger != 0 {
				i := m.concInt(x, "string(rune)")
				return string(rune(i))
			}
		case *types.Slice:
			s := x.(slice)
			et := sv.Elem().Underlying().(*types.Basic)
			if et.Kind() == types.Uint8 {
				return mkStr(s.elems())
			}
			var sb strings.Builder
			for _, e := range s.elems() {
				sb.WriteRune(rune(m.concInt(e, "rune")))
			}
			return sb.String()
		}
		panic(unsupported(fmt.Sprintf("conversion %v -> string", src)))
	}
	bs, ok := us.(*types.Basic)
	if !ok {
		panic(unsupported(fmt.Sprintf("conversion %v -> %v", src, dst)))
	}
	if bs.Kind() == types.UnsafePointer {
		if bd.Kind() == types.Uintptr {
			p := x.(ptr)
			if p.isNil() {
				return int64(0)
			}
			// an opaque non-zero address; arithmetic on it is unsupported
			return int64(0x10000 + p.o.id*4096)
		}
	}
	switch {
	case bd.Info()&types.IsInteger != 0:
		dw, dsigned := widthOf(bd)
		switch {
		case bs.Info()&types.IsInteger != 0:
			sw, ssigned := widthOf(bs)
			switch x := x.(type) {
			case int64:
				return canon(uint64(x), dw, dsigned)
			case *sym:
				t := x.t
				switch {
				case dw < sw:
					t = m.tf.extract(t, dw-1, 0)
				case dw > sw && ssigned:
					t = m.tf.sext(t, dw)
				case dw > sw:
					t = m.tf.zext(t, dw)
				}
				return m.fromTerm(t, dsigned)
			}
		case bs.Info()&types.IsFloat != 0:
			fl, ok := x.(float64)
			if !ok {
				m.havocs++
				return &sym{t: m.fresh("fhavoc", dw)}
			}
			if dsigned {
				return canon(uint64(int64(fl)), dw, true)
			}
			return canon(uint64(fl), dw, false)
		}
	case bd.Info()&types.IsFloat != 0:
		var r float64
		switch {
		case bs.Info()&types.IsInteger != 0:
			i, ok := x.(int64)
			if !ok {
				m.havocs++
				return &sym{t: m.fresh("fhavoc", 64)}
			}
			_, ssigned := widthOf(bs)
			if ssigned {
				r = float64(i)
			} else {
				r = float64(uint64(i))
			}
			if bd.Kind() == types.Float32 {
				if ssigned {
					r = float64(float32(i))
				} else {
					r = float64(float32(uint64(i)))
				}
			}
			return r
		case bs.Info()&types.IsFloat != 0:
			fl, ok := x.(float64)
			if !ok {
				if bd.Kind() == bs.Kind() {
					return x
				}
				panic(unsupported("float->float on symbolic"))
			}
			if bd.Kind() == types.Float32 {
				return float64(float32(fl))
			}
			return fl
		}
	case bd.Info()&types.IsComplex != 0:
		return x
	case bd.Info()&types.IsBoolean != 0:
		return x
	}
	panic(unsupported(fmt.Sprintf("conversion %v -> %v (%T)", src, dst, x)))
}

// ---- type assertions ----

func (m *machine) implements(dyn types.Type, it *types.Interface) bool {
	if dyn == runtimeErrorType {
		return it.NumMethods() == 0 || (it.NumMethods() == 1 && it.Method(0).Name() == "Error")
	}
	return types.Implements(dyn, it)
}

func (m *machine) typeAssert(fr *frame, instr *ssa.TypeAssert, x iface) value {
	var v value
	ok := false
	if it, isI := instr.AssertedType.Underlying().(*types.Interface); isI {
		if x.t != nil && m.implements(x.t, it) {
			v, ok = x, true
		}
	} else if x.t != nil && types.Identical(x.t, instr.AssertedType) {
		v, ok = copyVal(x.v), true
	}
	if !ok {
		if !instr.CommaOk {
			have := "nil"
			if x.t != nil {
				have = x.t.String()
			}
			m.goPanic(fr, fmt.Sprintf("interface conversion: interface is %s, not %s", have, instr.AssertedType))
		}
		v = zero(instr.AssertedType)
	}
	if instr.CommaOk {
		return tuple{v, ok}
	}
	return v
}

// ---- maps ----

func (m *machine) newMap(t *types.Map) *mapobj {
	m.objSeq++
	return &mapobj{kt: t.Key(), vt: t.Elem(), index: map[any]int{}, id: m.objSeq}
}

type ifaceKey struct {
	t string
	k any
}
type ptrKey struct{ c *value }

// hashKey returns a host-comparable key for concrete keys.
func hashKey(v value) (any, bool) {
	switch v := v.(type) {
	case string, int64, bool, float64, complex128:
		return v, true
	case ptr:
		if v.symIdx != nil {
			return nil, false
		}
		return ptrKey{v.c}, true
	case *chanobj, *mapobj, *hostObj:
		return v, true
	case iface:
		if v.t == nil {
			return ifaceKey{}, true
		}
		k, ok := hashKey(v.v)
		if !ok {
			return nil, false
		}
		return ifaceKey{v.t.String(), k}, true
	case structure:
		var sb strings.Builder
		sb.WriteString("S{")
		for _, e := range v {
			k, ok := hashKey(e)
			if !ok {
				return nil, false
			}
			fmt.Fprintf(&sb, "%T:%v;", k, k)
		}
		return sb.String(), true
	case array:
		var sb strings.Builder
		sb.WriteString("A{")
		for _, e := range v {
			k, ok := hashKey(e)
			if !ok {
				return nil, false
			}
			fmt.Fprintf(&sb, "%T:%v;", k, k)
		}
		return sb.String(), true
	}
	return nil, false
}

func (m *machine) mapFind(fr *frame, mo *mapobj, k value) *mapEntry {
	if mo == nil {
		return nil
	}
	if mo.symKeys == 0 {
		if hk, ok := hashKey(k); ok {
			if i, ok := mo.index[hk]; ok {
				return mo.entries[i]
			}
			return nil
		}
	}
	for _, e := range mo.entries {
		if e.deleted {
			continue
		}
		c := m.eqTerm(fr, mo.kt, k, e.k)
		if m.decideBool(c, "mapkey") {
			return e
		}
	}
	return nil
}

func (m *machine) mapSet(fr *frame, mo *mapobj, k, v value) {
	if e := m.mapFind(fr, mo, k); e != nil {
		e.v = copyVal(v)
		return
	}
	e := &mapEntry{k: copyVal(k), v: copyVal(v)}
	mo.entries = append(mo.entries, e)
	mo.live++
	if hk, ok := hashKey(k); ok {
		mo.index[hk] = len(mo.entries) - 1
	} else {
		mo.symKeys++
	}
}

func (m *machine) mapDelete(fr *frame, mo *mapobj, k value) {
	e := m.mapFind(fr, mo, k)
	if e == nil {
		return
	}
	e.deleted = true
	mo.live--
	if hk, ok := hashKey(e.k); ok {
		delete(mo.index, hk)
	} else {
		mo.symKeys--
	}
	if mo.live == 0 {
		mo.entries = nil
		mo.index = map[any]int{}
		mo.symKeys = 0
	}
}

func (m *machine) lookup(fr *frame, instr *ssa.Lookup) value {
	x := fr.get(instr.X)
	k := fr.get(instr.Index)
	switch x := x.(type) {
	case *mapobj:
		var v value
		ok := false
		if e := m.mapFind(fr, x, k); e != nil {
			v, ok = copyVal(e.v), true
		} else {
			v = zero(instr.X.Type().Underlying().(*types.Map).Elem())
		}
		if instr.CommaOk {
			return tuple{v, ok}
		}
		return v
	case string, *sstr:
		return m.strIndex(fr, x, k, instr.Index.Type())
	}
	panic(fmt.Sprintf("lookup: %T", x))
}

// ---- range ----

type iterator interface {
	next(m *machine, fr *frame) value
}

type mapIter struct {
	mo    *mapobj
	i     int
	start int // rotation of the iteration order (Go leaves it unspecified)
}

func (it *mapIter) next(m *machine, fr *frame) value {
	if it.mo != nil {
		n := len(it.mo.entries)
		for it.i < n {
			e := it.mo.entries[(it.i+it.start)%n]
			it.i++
			if !e.deleted {
				return tuple{true, copyVal(e.k), copyVal(e.v)}
			}
		}
	}
	return tuple{false, nil, nil}
}

type strIter struct {
	s value
	i int
}

func (it *strIter) next(m *machine, fr *frame) value {
	n := strLen(it.s)
	if it.i >= n {
		return tuple{false, int64(0), int64(0)}
	}
	switch s := it.s.(type) {
	case string:
		r, sz := utf8.DecodeRuneInString(s[it.i:])
		i := it.i
		it.i += sz
		return tuple{true, int64(i), int64(r)}
	case *sstr:
		b := s.b[it.i]
		if c, ok := b.(int64); ok && c < utf8.RuneSelf {
			i := it.i
			it.i++
			return tuple{true, int64(i), c}
		}
		if sb, ok := b.(*sym); ok {
			if m.decideBool(m.tf.cmp("bvult", sb.t, m.tf.bv(utf8.RuneSelf, 8)), "range-str-ascii") {
				i := it.i
				it.i++
				return tuple{true, int64(i), m.fromTerm(m.tf.zext(sb.t, 32), true)}
			}
		}
		panic(unsupported("range over string with symbolic non-ASCII bytes"))
	}
	panic("strIter")
}

func (m *machine) rangeIter(fr *frame, x value, t types.Type) value {
	switch x := x.(type) {
	case *mapobj:
		it := &mapIter{mo: x}
		// harness parameter map_order: the start of a map iteration is an environment decision
		if x != nil && m.cfg.params["map_order"] != 0 && x.live > 1 && x.live <= 4 {
			it.start = m.choose(len(x.entries), "map-order")
		}
		return it
	case string, *sstr:
		return &strIter{s: x}
	}
	panic(fmt.Sprintf("range over %T", x))
}

// ---- float helpers used by intrinsics ----

func f32bits(f float64) int64 { return int64(math.Float32bits(float32(f))) }
