package main

func init() {
	checks["C10"] = &checkDef{
		Level:       levelMC,
		Explanation: "Rely/guarantee inductive step plus bounded histories on the real lru store (lru.go, container/list executed as real code). (1) VerifC10_update: the store is put into an arbitrary quiescent state — up to N list entries in LRU order, each pending or completed, completed ones with an arbitrary symbolic accounted size ≥ entryMinSize, one or two commands per key, symbolic budget max, assuming only the representation invariant (size = Σ completed sizes ≤ max, or nothing evictable); then one real Flight+Update completes a pending entry. Oracle: invariant re-established (size = Σ sizes of completed entries actually in the list, every element indexed by store[key].cache[cmd] and vice versa), size ≤ max or no completed entry left, evicted entries are a prefix of the completed entries in list order, pending entries never evicted. Because the pre-state is arbitrary within the shape bound, the step covers update histories of any length. (2) VerifC10_history: every sequence of ≤ S operations (Flight with symbolic TTL, Update with three value sizes, Cancel, Delete(key|nil), clock advance by a symbolic number of seconds) over 2 keys × 2 commands from newLRU with a symbolic budget; the accounting invariant is asserted after every operation (reachability twin of the step's pre-states and coverage of the expiry/delete/cancel branches).",
		Assumptions: []string{"the store mutex serialises operations (one operation at a time; sync.RWMutex is an engine intrinsic)", "accounted sizes ≤ 2^40 and budget ≤ 2^50 (no int overflow)"},
		Outside:     []string{"more than N entries visible to one update (the eviction loop is uniform in the list length)", "Flights (batched) is exercised under C11, not here"},
		Bounds:      map[string]any{"quick": "N = 4 entries; histories of S = 3 operations", "thorough": "N = 5 entries; histories of S = 4 operations"},
		specs: func(tier string) []specRef {
			return []specRef{
				hsx(rootPkg, "VerifC10_update", P{"max_entries": q(tier, int64(4), 5)}, 5000000, 3000, "evicted", "kept"),
				hsx(rootPkg, "VerifC10_history", P{"steps": q(tier, int64(3), 4)}, 5000000, 3000, "history", "updated"),
			}
		},
	}
}
