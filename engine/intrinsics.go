package main

// Intrinsics: functions of the runtime / standard library that are implemented by the engine
// (they have no Go body, depend on the runtime, or are summarised). Every one of them is part
// of the trusted base and is reported in evidence when used.

import (
	"fmt"
	"go/types"
	"math"
	"math/bits"
	"regexp"
	"strconv"
	"strings"

	"golang.org/x/tools/go/ssa"
)

// intrinsicFn returns (result, handled). handled=false means "run the SSA body instead".
type intrinsicFn func(m *machine, fr *frame, fn *ssa.Function, args []value) (value, bool)

var intrinsics = map[string]intrinsicFn{}

func lookupIntrinsic(fn *ssa.Function) (intrinsicFn, bool) {
	name := fn.String()
	if in, ok := intrinsics[name]; ok {
		return in, true
	}
	// harness vocabulary: <pkg>.verifXxx
	if i := strings.LastIndex(stripTypeArgs(name), ".verif"); i >= 0 && !strings.ContainsAny(stripTypeArgs(name)[i+1:], ".$") {
		if in, ok := verifIntrinsics[stripTypeArgs(name)[i+1:]]; ok {
			return in, true
		}
	}
	// generic instantiations: strip type arguments
	if i := strings.Index(name, "["); i >= 0 {
		base := stripTypeArgs(name)
		if in, ok := intrinsics[base]; ok {
			return in, true
		}
	}
	return nil, false
}

func stripTypeArgs(s string) string {
	var sb strings.Builder
	depth := 0
	for _, r := range s {
		switch r {
		case '[':
			depth++
		case ']':
			depth--
		default:
			if depth == 0 {
				sb.WriteRune(r)
			}
		}
	}
	return sb.String()
}

func (m *machine) usedIntrinsic(name string) { m.wk.intrinsicsUsed[name]++ }

func reg(name string, f intrinsicFn) {
	intrinsics[name] = func(m *machine, fr *frame, fn *ssa.Function, args []value) (value, bool) {
		r, ok := f(m, fr, fn, args)
		if ok {
			m.usedIntrinsic(name)
		}
		return r, ok
	}
}

// simple helpers
func nop(m *machine, fr *frame, fn *ssa.Function, args []value) (value, bool) { return nil, true }

func fieldIndex(t types.Type, name string) int {
	st := t.Underlying().(*types.Struct)
	for i := 0; i < st.NumFields(); i++ {
		if st.Field(i).Name() == name {
			return i
		}
	}
	panic("no field " + name + " in " + t.String())
}

func recvElem(fn *ssa.Function) types.Type {
	return fn.Signature.Recv().Type().Underlying().(*types.Pointer).Elem()
}

// ---- sync state ----

type mutexState struct {
	locked  bool
	readers int
	waiters []*gor
	owner   *gor
}

type condState struct{ waiters []*gor }
type wgState struct {
	n       int64
	waiters []*gor
}
type poolState struct{ items []value }

func (m *machine) mutexOf(p ptr) *mutexState {
	if s, ok := m.hostState[p.c]; ok {
		return s.(*mutexState)
	}
	s := &mutexState{}
	m.hostState[p.c] = s
	return s
}

func (m *machine) wakeAll(ws *[]*gor) {
	for _, g := range *ws {
		m.ready(g)
	}
	*ws = nil
}

func (m *machine) mutexLock(fr *frame, p ptr, kind string) {
	if p.isNil() {
		m.goPanic(fr, "invalid memory address or nil pointer dereference (nil mutex)")
	}
	m.yieldPoint(fr, "mutex")
	s := m.mutexOf(p)
	for s.locked || (kind == "w" && s.readers > 0) {
		s.waiters = append(s.waiters, m.cur)
		m.park(fr, "mutex lock")
	}
	s.locked = true
	s.owner = m.cur
}

func (m *machine) mutexUnlock(fr *frame, p ptr) {
	s := m.mutexOf(p)
	if !s.locked {
		m.violation(fr, "fatal error: sync: unlock of unlocked mutex")
	}
	s.locked = false
	s.owner = nil
	m.wakeAll(&s.waiters)
	m.yieldPoint(fr, "unlock")
}

func init() {
	// ---- sync.Mutex ----
	reg("(*sync.Mutex).Lock", func(m *machine, fr *frame, fn *ssa.Function, a []value) (value, bool) {
		m.mutexLock(fr, a[0].(ptr), "w")
		return nil, true
	})
	reg("(*sync.Mutex).Unlock", func(m *machine, fr *frame, fn *ssa.Function, a []value) (value, bool) {
		m.mutexUnlock(fr, a[0].(ptr))
		return nil, true
	})
	reg("(*sync.Mutex).TryLock", func(m *machine, fr *frame, fn *ssa.Function, a []value) (value, bool) {
		m.yieldPoint(fr, "mutex")
		s := m.mutexOf(a[0].(ptr))
		if s.locked || s.readers > 0 {
			return false, true
		}
		s.locked = true
		return true, true
	})
	// ---- sync.RWMutex ----
	reg("(*sync.RWMutex).Lock", func(m *machine, fr *frame, fn *ssa.Function, a []value) (value, bool) {
		m.mutexLock(fr, a[0].(ptr), "w")
		return nil, true
	})
	reg("(*sync.RWMutex).Unlock", func(m *machine, fr *frame, fn *ssa.Function, a []value) (value, bool) {
		m.mutexUnlock(fr, a[0].(ptr))
		return nil, true
	})
	reg("(*sync.RWMutex).RLock", func(m *machine, fr *frame, fn *ssa.Function, a []value) (value, bool) {
		p := a[0].(ptr)
		if p.isNil() {
			m.goPanic(fr, "invalid memory address or nil pointer dereference (nil mutex)")
		}
		m.yieldPoint(fr, "mutex")
		s := m.mutexOf(p)
		for s.locked {
			s.waiters = append(s.waiters, m.cur)
			m.park(fr, "rwmutex rlock")
		}
		s.readers++
		return nil, true
	})
	reg("(*sync.RWMutex).RUnlock", func(m *machine, fr *frame, fn *ssa.Function, a []value) (value, bool) {
		s := m.mutexOf(a[0].(ptr))
		if s.readers <= 0 {
			m.violation(fr, "fatal error: sync: RUnlock of unlocked RWMutex")
		}
		s.readers--
		if s.readers == 0 {
			m.wakeAll(&s.waiters)
		}
		m.yieldPoint(fr, "unlock")
		return nil, true
	})
	reg("(*sync.RWMutex).TryLock", func(m *machine, fr *frame, fn *ssa.Function, a []value) (value, bool) {
		s := m.mutexOf(a[0].(ptr))
		if s.locked || s.readers > 0 {
			return false, true
		}
		s.locked = true
		return true, true
	})
	reg("(*sync.RWMutex).TryRLock", func(m *machine, fr *frame, fn *ssa.Function, a []value) (value, bool) {
		s := m.mutexOf(a[0].(ptr))
		if s.locked {
			return false, true
		}
		s.readers++
		return true, true
	})
	// ---- sync.Cond ----
	condOf := func(m *machine, p ptr) *condState {
		if s, ok := m.hostState[p.c]; ok {
			return s.(*condState)
		}
		s := &condState{}
		m.hostState[p.c] = s
		return s
	}
	callLocker := func(m *machine, fr *frame, fn *ssa.Function, p ptr, method string) {
		st := (*p.c).(structure)
		l := st[fieldIndex(recvElem(fn), "L")].(iface)
		if l.t == nil {
			m.goPanic(fr, "nil Locker in sync.Cond")
		}
		f := m.p.prog.LookupMethod(l.t, nil, method)
		if f == nil {
			panic("Locker method not found: " + method)
		}
		m.callFn(fr.g, fr, f, []value{l.v}, nil, nil)
	}
	reg("(*sync.Cond).Wait", func(m *machine, fr *frame, fn *ssa.Function, a []value) (value, bool) {
		p := a[0].(ptr)
		m.yieldPoint(fr, "cond") // others may run between the caller's predicate check and the wait
		s := condOf(m, p)
		// enqueue before unlocking: atomically "add to notify list, then unlock"
		s.waiters = append(s.waiters, m.cur)
		me := m.cur
		callLocker(m, fr, fn, p, "Unlock")
		for {
			still := false
			for _, g := range s.waiters {
				if g == me {
					still = true
				}
			}
			if !still {
				break
			}
			m.park(fr, "sync.Cond.Wait")
		}
		callLocker(m, fr, fn, p, "Lock")
		return nil, true
	})
	reg("(*sync.Cond).Signal", func(m *machine, fr *frame, fn *ssa.Function, a []value) (value, bool) {
		m.yieldPoint(fr, "cond")
		s := condOf(m, a[0].(ptr))
		if len(s.waiters) > 0 {
			g := s.waiters[0]
			s.waiters = s.waiters[1:]
			m.ready(g)
		}
		return nil, true
	})
	reg("(*sync.Cond).Broadcast", func(m *machine, fr *frame, fn *ssa.Function, a []value) (value, bool) {
		m.yieldPoint(fr, "cond")
		s := condOf(m, a[0].(ptr))
		m.wakeAll(&s.waiters)
		return nil, true
	})
	// ---- sync.WaitGroup ----
	wgOf := func(m *machine, p ptr) *wgState {
		if s, ok := m.hostState[p.c]; ok {
			return s.(*wgState)
		}
		s := &wgState{}
		m.hostState[p.c] = s
		return s
	}
	wgAdd := func(m *machine, fr *frame, p ptr, d int64) {
		m.yieldPoint(fr, "wg")
		s := wgOf(m, p)
		s.n += d
		if s.n < 0 {
			m.goPanic(fr, "sync: negative WaitGroup counter")
		}
		if s.n == 0 {
			m.wakeAll(&s.waiters)
		}
	}
	reg("(*sync.WaitGroup).Add", func(m *machine, fr *frame, fn *ssa.Function, a []value) (value, bool) {
		wgAdd(m, fr, a[0].(ptr), m.concInt(a[1], "wg.Add"))
		return nil, true
	})
	reg("(*sync.WaitGroup).Done", func(m *machine, fr *frame, fn *ssa.Function, a []value) (value, bool) {
		wgAdd(m, fr, a[0].(ptr), -1)
		return nil, true
	})
	reg("(*sync.WaitGroup).Wait", func(m *machine, fr *frame, fn *ssa.Function, a []value) (value, bool) {
		m.yieldPoint(fr, "wg")
		s := wgOf(m, a[0].(ptr))
		for s.n > 0 {
			s.waiters = append(s.waiters, m.cur)
			m.park(fr, "sync.WaitGroup.Wait")
		}
		return nil, true
	})
	reg("(*sync.WaitGroup).Go", func(m *machine, fr *frame, fn *ssa.Function, a []value) (value, bool) {
		p := a[0].(ptr)
		wgAdd(m, fr, p, 1)
		f := a[1]
		done := &boundMethod{name: "wg.goDone", recv: []value{p, f}}
		m.spawn(fr, done, nil, "")
		return nil, true
	})
	// ---- sync.Pool ----
	poolOf := func(m *machine, p ptr) *poolState {
		if s, ok := m.hostState[p.c]; ok {
			return s.(*poolState)
		}
		s := &poolState{}
		m.hostState[p.c] = s
		return s
	}
	reg("(*sync.Pool).Get", func(m *machine, fr *frame, fn *ssa.Function, a []value) (value, bool) {
		p := a[0].(ptr)
		s := poolOf(m, p)
		if n := len(s.items); n > 0 {
			take := true
			if m.cfg.params["pool_nondet"] != 0 {
				take = m.choose(2, "sync.Pool.Get") == 0
			}
			if take {
				v := s.items[n-1]
				s.items = s.items[:n-1]
				return v, true
			}
		}
		st := (*p.c).(structure)
		nf := st[fieldIndex(recvElem(fn), "New")]
		switch f := nf.(type) {
		case *ssa.Function:
			if f == nil {
				return iface{}, true
			}
		}
		return m.callValue(fr.g, fr, nf, nil, nil), true
	})
	reg("(*sync.Pool).Put", func(m *machine, fr *frame, fn *ssa.Function, a []value) (value, bool) {
		x := a[1].(iface)
		if x.t == nil {
			return nil, true
		}
		s := poolOf(m, a[0].(ptr))
		s.items = append(s.items, x)
		return nil, true
	})
	reg("sync.runtime_notifyListCheck", nop)
	reg("sync.runtime_registerPoolCleanup", nop)
	reg("sync.runtime_registerUniqueMapCleanup", nop)
	reg("internal/sync.runtime_registerPoolCleanup", nop)
	reg("sync.fatal", func(m *machine, fr *frame, fn *ssa.Function, a []value) (value, bool) {
		m.violation(fr, "fatal error: "+fmt.Sprint(a[0]))
		return nil, true
	})
	reg("sync.throw", func(m *machine, fr *frame, fn *ssa.Function, a []value) (value, bool) {
		m.violation(fr, "fatal error: "+fmt.Sprint(a[0]))
		return nil, true
	})

	// ---- sync/atomic ----
	for _, ty := range []string{"Int32", "Int64", "Uint32", "Uint64", "Uintptr", "Pointer"} {
		ty := ty
		reg("sync/atomic.Load"+ty, func(m *machine, fr *frame, fn *ssa.Function, a []value) (value, bool) {
			m.yieldPoint(fr, "atomic")
			return m.load(fr, a[0].(ptr)), true
		})
		reg("sync/atomic.Store"+ty, func(m *machine, fr *frame, fn *ssa.Function, a []value) (value, bool) {
			m.yieldPoint(fr, "atomic")
			m.store(fr, a[0], a[1])
			return nil, true
		})
		reg("sync/atomic.Swap"+ty, func(m *machine, fr *frame, fn *ssa.Function, a []value) (value, bool) {
			m.yieldPoint(fr, "atomic")
			old := m.load(fr, a[0].(ptr))
			m.store(fr, a[0], a[1])
			return old, true
		})
		reg("sync/atomic.CompareAndSwap"+ty, func(m *machine, fr *frame, fn *ssa.Function, a []value) (value, bool) {
			m.yieldPoint(fr, "atomic")
			cur := m.load(fr, a[0].(ptr))
			t := fn.Signature.Params().At(1).Type()
			if m.decideBool(m.eqTerm(fr, t, cur, a[1]), "cas") {
				m.store(fr, a[0], a[2])
				return true, true
			}
			return false, true
		})
		if ty == "Pointer" {
			continue
		}
		reg("sync/atomic.Add"+ty, func(m *machine, fr *frame, fn *ssa.Function, a []value) (value, bool) {
			m.yieldPoint(fr, "atomic")
			t := fn.Signature.Params().At(1).Type()
			cur := m.load(fr, a[0].(ptr))
			nv := m.binop(fr, tokenADD, t, cur, a[1], t)
			m.store(fr, a[0], nv)
			return nv, true
		})
		reg("sync/atomic.And"+ty, func(m *machine, fr *frame, fn *ssa.Function, a []value) (value, bool) {
			m.yieldPoint(fr, "atomic")
			t := fn.Signature.Params().At(1).Type()
			cur := m.load(fr, a[0].(ptr))
			m.store(fr, a[0], m.binop(fr, tokenAND, t, cur, a[1], t))
			return cur, true
		})
		reg("sync/atomic.Or"+ty, func(m *machine, fr *frame, fn *ssa.Function, a []value) (value, bool) {
			m.yieldPoint(fr, "atomic")
			t := fn.Signature.Params().At(1).Type()
			cur := m.load(fr, a[0].(ptr))
			m.store(fr, a[0], m.binop(fr, tokenOR, t, cur, a[1], t))
			return cur, true
		})
	}
	// atomic.Value: the stored interface lives in field v.
	avField := func(fn *ssa.Function, p ptr) *value {
		st := (*p.c).(structure)
		return &st[fieldIndex(recvElem(fn), "v")]
	}
	reg("(*sync/atomic.Value).Load", func(m *machine, fr *frame, fn *ssa.Function, a []value) (value, bool) {
		m.yieldPoint(fr, "atomic")
		return *avField(fn, a[0].(ptr)), true
	})
	reg("(*sync/atomic.Value).Store", func(m *machine, fr *frame, fn *ssa.Function, a []value) (value, bool) {
		m.yieldPoint(fr, "atomic")
		v := a[1].(iface)
		if v.t == nil {
			m.goPanic(fr, "sync/atomic: store of nil value into Value")
		}
		c := avField(fn, a[0].(ptr))
		if old := (*c).(iface); old.t != nil && !types.Identical(old.t, v.t) {
			m.goPanic(fr, "sync/atomic: store of inconsistently typed value into Value")
		}
		*c = v
		return nil, true
	})
	reg("(*sync/atomic.Value).Swap", func(m *machine, fr *frame, fn *ssa.Function, a []value) (value, bool) {
		m.yieldPoint(fr, "atomic")
		c := avField(fn, a[0].(ptr))
		old := *c
		*c = a[1]
		return old, true
	})
	reg("(*sync/atomic.Value).CompareAndSwap", func(m *machine, fr *frame, fn *ssa.Function, a []value) (value, bool) {
		m.yieldPoint(fr, "atomic")
		c := avField(fn, a[0].(ptr))
		et := fn.Signature.Params().At(0).Type()
		if m.decideBool(m.eqTerm(fr, et, *c, a[1]), "cas") {
			*c = a[2]
			return true, true
		}
		return false, true
	})

	// ---- runtime ----
	reg("runtime.Gosched", func(m *machine, fr *frame, fn *ssa.Function, a []value) (value, bool) {
		m.gosched(fr)
		return nil, true
	})
	reg("runtime.GOMAXPROCS", func(m *machine, fr *frame, fn *ssa.Function, a []value) (value, bool) {
		if v, ok := m.cfg.params["gomaxprocs"]; ok {
			return v, true
		}
		return int64(2), true
	})
	reg("runtime.NumCPU", func(m *machine, fr *frame, fn *ssa.Function, a []value) (value, bool) { return int64(2), true })
	reg("runtime.SetFinalizer", nop)
	reg("runtime.KeepAlive", nop)
	reg("runtime.GC", nop)
	reg("internal/abi.NoEscape", func(m *machine, fr *frame, fn *ssa.Function, a []value) (value, bool) { return a[0], true })
	reg("internal/abi.Escape", func(m *machine, fr *frame, fn *ssa.Function, a []value) (value, bool) { return a[0], true })
	reg("internal/godebug.New", func(m *machine, fr *frame, fn *ssa.Function, a []value) (value, bool) { return ptr{}, true })
	reg("(*internal/godebug.Setting).Value", func(m *machine, fr *frame, fn *ssa.Function, a []value) (value, bool) { return "", true })
	reg("(*internal/godebug.Setting).IncNonDefault", nop)
	reg("os.Getenv", func(m *machine, fr *frame, fn *ssa.Function, a []value) (value, bool) { return "", true })
	reg("os.LookupEnv", func(m *machine, fr *frame, fn *ssa.Function, a []value) (value, bool) { return tuple{"", false}, true })
	reg("os.runtime_args", func(m *machine, fr *frame, fn *ssa.Function, a []value) (value, bool) { return slice{}, true })

	// ---- math ----
	f1 := func(name string, f func(float64) float64) {
		reg(name, func(m *machine, fr *frame, fn *ssa.Function, a []value) (value, bool) {
			x, ok := a[0].(float64)
			if !ok {
				// §2.9(c): a math function of a symbolic float is an unconstrained float
				m.havocs++
				return &sym{t: m.fresh("fhavoc", 64)}, true
			}
			return f(x), true
		})
	}
	f1("math.Log", math.Log)
	f1("math.Log10", math.Log10)
	f1("math.Log2", math.Log2)
	f1("math.Log1p", math.Log1p)
	f1("math.Exp", math.Exp)
	f1("math.Sqrt", math.Sqrt)
	f1("math.Floor", math.Floor)
	f1("math.Ceil", math.Ceil)
	f1("math.Trunc", math.Trunc)
	f1("math.Round", math.Round)
	f1("math.Abs", math.Abs)
	reg("math.Pow", func(m *machine, fr *frame, fn *ssa.Function, a []value) (value, bool) {
		x, ok1 := a[0].(float64)
		y, ok2 := a[1].(float64)
		if !ok1 || !ok2 {
			m.havocs++
			return &sym{t: m.fresh("fhavoc", 64)}, true
		}
		return math.Pow(x, y), true
	})
	reg("math.Float64bits", func(m *machine, fr *frame, fn *ssa.Function, a []value) (value, bool) {
		switch x := a[0].(type) {
		case float64:
			return int64(math.Float64bits(x)), true
		case *sym:
			return x, true
		}
		panic("Float64bits")
	})
	reg("math.Float64frombits", func(m *machine, fr *frame, fn *ssa.Function, a []value) (value, bool) {
		switch x := a[0].(type) {
		case int64:
			return math.Float64frombits(uint64(x)), true
		case *sym:
			return x, true
		}
		panic("Float64frombits")
	})
	reg("math.Float32bits", func(m *machine, fr *frame, fn *ssa.Function, a []value) (value, bool) {
		switch x := a[0].(type) {
		case float64:
			return int64(math.Float32bits(float32(x))), true
		case *sym:
			return x, true
		}
		panic("Float32bits")
	})
	reg("math.Float32frombits", func(m *machine, fr *frame, fn *ssa.Function, a []value) (value, bool) {
		switch x := a[0].(type) {
		case int64:
			return float64(math.Float32frombits(uint32(x))), true
		case *sym:
			return x, true
		}
		panic("Float32frombits")
	})
	// math/bits on concrete values (the SSA bodies also work; these are just faster)
	reg("math/bits.LeadingZeros64", func(m *machine, fr *frame, fn *ssa.Function, a []value) (value, bool) {
		if x, ok := a[0].(int64); ok {
			return int64(bits.LeadingZeros64(uint64(x))), true
		}
		return nil, false
	})
	reg("math/bits.TrailingZeros64", func(m *machine, fr *frame, fn *ssa.Function, a []value) (value, bool) {
		if x, ok := a[0].(int64); ok {
			return int64(bits.TrailingZeros64(uint64(x))), true
		}
		return nil, false
	})
	reg("math/bits.Len64", func(m *machine, fr *frame, fn *ssa.Function, a []value) (value, bool) {
		if x, ok := a[0].(int64); ok {
			return int64(bits.Len64(uint64(x))), true
		}
		return nil, false
	})
	reg("math/bits.Mul64", func(m *machine, fr *frame, fn *ssa.Function, a []value) (value, bool) {
		x, ok1 := a[0].(int64)
		y, ok2 := a[1].(int64)
		if ok1 && ok2 {
			hi, lo := bits.Mul64(uint64(x), uint64(y))
			return tuple{int64(hi), int64(lo)}, true
		}
		return nil, false
	})

	// ---- bytealg / strings fast paths (concrete only; symbolic falls back to generic loops) ----
	reg("internal/bytealg.IndexByteString", func(m *machine, fr *frame, fn *ssa.Function, a []value) (value, bool) {
		return m.indexByte(strBytes(a[0]), a[1]), true
	})
	reg("internal/bytealg.IndexByte", func(m *machine, fr *frame, fn *ssa.Function, a []value) (value, bool) {
		return m.indexByte(a[0].(slice).elems(), a[1]), true
	})
	reg("internal/bytealg.LastIndexByteString", func(m *machine, fr *frame, fn *ssa.Function, a []value) (value, bool) {
		return m.lastIndexByte(strBytes(a[0]), a[1]), true
	})
	reg("internal/bytealg.LastIndexByte", func(m *machine, fr *frame, fn *ssa.Function, a []value) (value, bool) {
		return m.lastIndexByte(a[0].(slice).elems(), a[1]), true
	})
	reg("internal/bytealg.Equal", func(m *machine, fr *frame, fn *ssa.Function, a []value) (value, bool) {
		return m.fromTerm(m.bytesEq(a[0].(slice).elems(), a[1].(slice).elems()), false), true
	})
	reg("bytes.Equal", func(m *machine, fr *frame, fn *ssa.Function, a []value) (value, bool) {
		return m.fromTerm(m.bytesEq(a[0].(slice).elems(), a[1].(slice).elems()), false), true
	})
	reg("internal/bytealg.Compare", func(m *machine, fr *frame, fn *ssa.Function, a []value) (value, bool) {
		return int64(m.strCompare(&sstr{b: a[0].(slice).elems()}, &sstr{b: a[1].(slice).elems()})), true
	})
	reg("internal/bytealg.CountString", func(m *machine, fr *frame, fn *ssa.Function, a []value) (value, bool) {
		return m.countByte(strBytes(a[0]), a[1]), true
	})
	reg("internal/bytealg.Count", func(m *machine, fr *frame, fn *ssa.Function, a []value) (value, bool) {
		return m.countByte(a[0].(slice).elems(), a[1]), true
	})
	reg("internal/bytealg.IndexString", func(m *machine, fr *frame, fn *ssa.Function, a []value) (value, bool) {
		s, ok1 := a[0].(string)
		sub, ok2 := a[1].(string)
		if ok1 && ok2 {
			return int64(strings.Index(s, sub)), true
		}
		return m.indexSym(strBytes(a[0]), strBytes(a[1])), true
	})
	reg("internal/bytealg.Index", func(m *machine, fr *frame, fn *ssa.Function, a []value) (value, bool) {
		return m.indexSym(a[0].(slice).elems(), a[1].(slice).elems()), true
	})
	reg("strings.Index", func(m *machine, fr *frame, fn *ssa.Function, a []value) (value, bool) {
		s, ok1 := a[0].(string)
		sub, ok2 := a[1].(string)
		if ok1 && ok2 {
			return int64(strings.Index(s, sub)), true
		}
		return m.indexSym(strBytes(a[0]), strBytes(a[1])), true
	})
	reg("internal/bytealg.MakeNoZero", func(m *machine, fr *frame, fn *ssa.Function, a []value) (value, bool) {
		n := m.concLen(fr, a[0], "MakeNoZero: len out of range")
		return m.makeSlice(types.Typ[types.Uint8], int(n), int(n)), true
	})
	reg("internal/stringslite.Index", func(m *machine, fr *frame, fn *ssa.Function, a []value) (value, bool) {
		s, ok1 := a[0].(string)
		sub, ok2 := a[1].(string)
		if ok1 && ok2 {
			return int64(strings.Index(s, sub)), true
		}
		return m.indexSym(strBytes(a[0]), strBytes(a[1])), true
	})
	strFast2 := func(name string, f func(a, b string) value) {
		reg(name, func(m *machine, fr *frame, fn *ssa.Function, a []value) (value, bool) {
			s, ok1 := a[0].(string)
			t, ok2 := a[1].(string)
			if ok1 && ok2 {
				return f(s, t), true
			}
			return nil, false
		})
	}
	strFast2("strings.HasPrefix", func(a, b string) value { return strings.HasPrefix(a, b) })
	strFast2("strings.HasSuffix", func(a, b string) value { return strings.HasSuffix(a, b) })
	strFast2("strings.Contains", func(a, b string) value { return strings.Contains(a, b) })
	strFast2("strings.EqualFold", func(a, b string) value { return strings.EqualFold(a, b) })
	reg("strings.ToLower", func(m *machine, fr *frame, fn *ssa.Function, a []value) (value, bool) {
		if s, ok := a[0].(string); ok {
			return strings.ToLower(s), true
		}
		return nil, false
	})
	reg("strings.ToUpper", func(m *machine, fr *frame, fn *ssa.Function, a []value) (value, bool) {
		if s, ok := a[0].(string); ok {
			return strings.ToUpper(s), true
		}
		return nil, false
	})

	// ---- strconv fast paths on concrete input ----
	reg("strconv.ParseInt", func(m *machine, fr *frame, fn *ssa.Function, a []value) (value, bool) {
		s, ok := a[0].(string)
		b, ok2 := a[1].(int64)
		bs, ok3 := a[2].(int64)
		if !ok || !ok2 || !ok3 {
			return nil, false
		}
		if _, err := strconv.ParseInt(s, int(b), int(bs)); err != nil {
			return nil, false // let the real code build the error value
		}
		v, _ := strconv.ParseInt(s, int(b), int(bs))
		return tuple{v, iface{}}, true
	})
	reg("strconv.ParseUint", func(m *machine, fr *frame, fn *ssa.Function, a []value) (value, bool) {
		s, ok := a[0].(string)
		b, ok2 := a[1].(int64)
		bs, ok3 := a[2].(int64)
		if !ok || !ok2 || !ok3 {
			return nil, false
		}
		v, err := strconv.ParseUint(s, int(b), int(bs))
		if err != nil {
			return nil, false
		}
		return tuple{int64(v), iface{}}, true
	})
	reg("strconv.ParseFloat", func(m *machine, fr *frame, fn *ssa.Function, a []value) (value, bool) {
		s, ok := a[0].(string)
		bs, ok2 := a[1].(int64)
		if !ok || !ok2 {
			// symbolic text: the parse either fails or yields some float (havoc); an empty string always fails
			m.havocs++
			if strLen(a[0]) > 0 && m.choose(2, "ParseFloat") == 0 {
				return tuple{&sym{t: m.fresh("fhavoc", 64)}, iface{}}, true
			}
			return tuple{float64(0), m.newErrorString("strconv.ParseFloat: parsing <symbolic>: invalid syntax")}, true
		}
		v, err := strconv.ParseFloat(s, int(bs))
		if err != nil {
			return nil, false
		}
		return tuple{v, iface{}}, true
	})
	reg("strconv.FormatFloat", func(m *machine, fr *frame, fn *ssa.Function, a []value) (value, bool) {
		f, ok := a[0].(float64)
		if !ok {
			panic(unsupported("strconv.FormatFloat on symbolic float"))
		}
		return strconv.FormatFloat(f, byte(a[1].(int64)), int(a[2].(int64)), int(a[3].(int64))), true
	})
	reg("strconv.AppendFloat", func(m *machine, fr *frame, fn *ssa.Function, a []value) (value, bool) {
		f, ok := a[1].(float64)
		if !ok {
			panic(unsupported("strconv.AppendFloat on symbolic float"))
		}
		s := strconv.FormatFloat(f, byte(a[2].(int64)), int(a[3].(int64)), int(a[4].(int64)))
		return m.appendValues(a[0].(slice), strBytes(s), types.Typ[types.Uint8]), true
	})
	reg("strconv.FormatInt", func(m *machine, fr *frame, fn *ssa.Function, a []value) (value, bool) {
		i, ok := a[0].(int64)
		b, ok2 := a[1].(int64)
		if ok && ok2 {
			return strconv.FormatInt(i, int(b)), true
		}
		return nil, false
	})
	reg("strconv.Itoa", func(m *machine, fr *frame, fn *ssa.Function, a []value) (value, bool) {
		if i, ok := a[0].(int64); ok {
			return strconv.Itoa(int(i)), true
		}
		return nil, false
	})
	reg("strconv.FormatUint", func(m *machine, fr *frame, fn *ssa.Function, a []value) (value, bool) {
		i, ok := a[0].(int64)
		b, ok2 := a[1].(int64)
		if ok && ok2 {
			return strconv.FormatUint(uint64(i), int(b)), true
		}
		return nil, false
	})
	reg("strconv.AppendInt", func(m *machine, fr *frame, fn *ssa.Function, a []value) (value, bool) {
		i, ok := a[1].(int64)
		b, ok2 := a[2].(int64)
		if ok && ok2 {
			return m.appendValues(a[0].(slice), strBytes(strconv.FormatInt(i, int(b))), types.Typ[types.Uint8]), true
		}
		return nil, false
	})
	reg("strconv.AppendUint", func(m *machine, fr *frame, fn *ssa.Function, a []value) (value, bool) {
		i, ok := a[1].(int64)
		b, ok2 := a[2].(int64)
		if ok && ok2 {
			return m.appendValues(a[0].(slice), strBytes(strconv.FormatUint(uint64(i), int(b))), types.Typ[types.Uint8]), true
		}
		return nil, false
	})
	reg("strconv.Quote", func(m *machine, fr *frame, fn *ssa.Function, a []value) (value, bool) {
		if s, ok := a[0].(string); ok {
			return strconv.Quote(s), true
		}
		return "\"<symbolic>\"", true
	})

	// ---- regexp (concrete subjects only) ----
	reg("regexp.MustCompile", func(m *machine, fr *frame, fn *ssa.Function, a []value) (value, bool) {
		re := regexp.MustCompile(a[0].(string))
		o := m.newObject(&hostObj{kind: "regexp", v: re}, "regexp")
		return ptr{o: o, c: &o.v}, true
	})
	reHost := func(m *machine, p ptr) *regexp.Regexp { return (*p.c).(*hostObj).v.(*regexp.Regexp) }
	reg("(*regexp.Regexp).MatchString", func(m *machine, fr *frame, fn *ssa.Function, a []value) (value, bool) {
		s, ok := a[1].(string)
		if !ok {
			panic(unsupported("regexp on symbolic string"))
		}
		return reHost(m, a[0].(ptr)).MatchString(s), true
	})
	reg("(*regexp.Regexp).FindStringSubmatch", func(m *machine, fr *frame, fn *ssa.Function, a []value) (value, bool) {
		s, ok := a[1].(string)
		if !ok {
			panic(unsupported("regexp on symbolic string"))
		}
		r := reHost(m, a[0].(ptr)).FindStringSubmatch(s)
		if r == nil {
			return slice{}, true
		}
		vs := make([]value, len(r))
		for i, x := range r {
			vs[i] = x
		}
		return m.sliceFromValues(vs), true
	})

	// ---- errors / fmt ----
	reg("errors.Is", func(m *machine, fr *frame, fn *ssa.Function, a []value) (value, bool) {
		return m.errorsIs(fr, a[0].(iface), a[1].(iface)), true
	})
	reg("fmt.Sprintf", func(m *machine, fr *frame, fn *ssa.Function, a []value) (value, bool) {
		return m.sprintf(fr, a[0], a[1].(slice).elems()), true
	})
	reg("fmt.Sprint", func(m *machine, fr *frame, fn *ssa.Function, a []value) (value, bool) {
		var sb strings.Builder
		for _, e := range a[0].(slice).elems() {
			sb.WriteString(m.formatValue(fr, e, 'v'))
		}
		return sb.String(), true
	})
	reg("fmt.Errorf", func(m *machine, fr *frame, fn *ssa.Function, a []value) (value, bool) {
		return m.errorf(fr, fn, a[0], a[1].(slice).elems()), true
	})
	reg("fmt.Println", nop2)
	reg("fmt.Printf", nop2)
	reg("fmt.Print", nop2)
	reg("fmt.Fprintf", nop2)
	reg("log.Printf", nop)
	reg("log.Println", nop)

	reg("internal/reflectlite.TypeOf", func(m *machine, fr *frame, fn *ssa.Function, a []value) (value, bool) {
		return iface{t: types.Typ[types.Int], v: &hostObj{kind: "rtype"}}, true
	})
	// ---- misc ----
	reg("internal/race.Enable", nop)
	reg("internal/race.Disable", nop)
	reg("internal/race.Acquire", nop)
	reg("internal/race.Release", nop)
	reg("internal/race.ReleaseMerge", nop)
	reg("internal/race.Read", nop)
	reg("internal/race.Write", nop)
	reg("internal/race.ReadRange", nop)
	reg("internal/race.WriteRange", nop)
}

func nop2(m *machine, fr *frame, fn *ssa.Function, args []value) (value, bool) {
	return tuple{int64(0), iface{}}, true
}

// ---- byte search helpers (fork on symbolic bytes) ----

func (m *machine) indexByte(b []value, c value) value {
	ct := m.toTerm(c, 8)
	for i, e := range b {
		if m.decideBool(m.tf.eq(m.toTerm(e, 8), ct), "indexbyte") {
			return int64(i)
		}
	}
	return int64(-1)
}

func (m *machine) lastIndexByte(b []value, c value) value {
	ct := m.toTerm(c, 8)
	for i := len(b) - 1; i >= 0; i-- {
		if m.decideBool(m.tf.eq(m.toTerm(b[i], 8), ct), "lastindexbyte") {
			return int64(i)
		}
	}
	return int64(-1)
}

func (m *machine) countByte(b []value, c value) value {
	ct := m.toTerm(c, 8)
	n := int64(0)
	for _, e := range b {
		if m.decideBool(m.tf.eq(m.toTerm(e, 8), ct), "countbyte") {
			n++
		}
	}
	return n
}

func (m *machine) bytesEq(a, b []value) *term {
	if len(a) != len(b) {
		return m.tf.boolc(false)
	}
	r := m.tf.boolc(true)
	for i := range a {
		r = m.tf.and(r, m.tf.eq(m.toTerm(a[i], 8), m.toTerm(b[i], 8)))
		if r.isFalse() {
			return r
		}
	}
	return r
}

func (m *machine) indexSym(s, sub []value) value {
	if len(sub) == 0 {
		return int64(0)
	}
	for i := 0; i+len(sub) <= len(s); i++ {
		if m.decideBool(m.bytesEq(s[i:i+len(sub)], sub), "index") {
			return int64(i)
		}
	}
	return int64(-1)
}

// ---- errors.Is ----

func (m *machine) errorsIs(fr *frame, err, target iface) value {
	if err.t == nil || target.t == nil {
		return err.t == nil && target.t == nil
	}
	comparable := types.Comparable(target.t)
	return m.errIs(fr, err, target, comparable, 0)
}

func (m *machine) errIs(fr *frame, err, target iface, comparable bool, depth int) bool {
	if depth > 32 {
		return false
	}
	for {
		if comparable && types.Identical(err.t, target.t) {
			if m.decideBool(m.eqTerm(fr, err.t, err.v, target.v), "errors.Is") {
				return true
			}
		}
		if f := m.findMethod(err.t, "Is"); f != nil && f.Signature.Params().Len() == 1 {
			if r, ok := m.callFn(fr.g, fr, f, []value{err.v, target}, nil, nil).(bool); ok && r {
				return true
			}
		}
		f := m.findMethod(err.t, "Unwrap")
		if f == nil {
			return false
		}
		r := m.callFn(fr.g, fr, f, []value{err.v}, nil, nil)
		switch r := r.(type) {
		case iface:
			if r.t == nil {
				return false
			}
			err = r
		case slice:
			for _, e := range r.elems() {
				ei := e.(iface)
				if ei.t == nil {
					continue
				}
				if m.errIs(fr, ei, target, comparable, depth+1) {
					return true
				}
			}
			return false
		default:
			return false
		}
	}
}

// tryErrorString calls Error() on a value if it has such a method.
func (m *machine) tryErrorString(i iface) (string, bool) {
	if i.t == nil {
		return "", false
	}
	if i.t == runtimeErrorType {
		return i.v.(string), true
	}
	f := m.findMethod(i.t, "Error")
	if f == nil || f.Signature.Params().Len() != 0 || m.cur == nil {
		return "", false
	}
	var out string
	ok := false
	func() {
		defer func() {
			if r := recover(); r != nil {
				if _, isEnd := r.(*pathEnd); isEnd {
					panic(r)
				}
				if _, isKill := r.(killSignal); isKill {
					panic(r)
				}
			}
		}()
		r := m.callFn(m.cur, nil, f, []value{i.v}, nil, nil)
		switch s := r.(type) {
		case string:
			out, ok = s, true
		case *sstr:
			out, ok = "<symbolic>", true
		}
	}()
	return out, ok
}

// ---- fmt ----

func (m *machine) formatValue(fr *frame, v value, verb byte) string {
	switch x := v.(type) {
	case iface:
		if x.t == nil {
			return "<nil>"
		}
		if verb != 'T' {
			if s, ok := m.tryErrorString(x); ok {
				return s
			}
			if f := m.findMethod(x.t, "String"); f != nil && f.Signature.Params().Len() == 0 && f.Signature.Results().Len() == 1 {
				if s, ok := m.callFn(fr.g, fr, f, []value{x.v}, nil, nil).(string); ok {
					return s
				}
			}
		} else {
			return x.t.String()
		}
		if b := basicOf(x.t); b != nil && b.Info()&types.IsUnsigned != 0 {
			if i, ok := x.v.(int64); ok {
				return strconv.FormatUint(uint64(i), 10)
			}
		}
		if verb == 'c' {
			if i, ok := x.v.(int64); ok {
				return string(rune(i))
			}
		}
		if verb == 'q' {
			if s, ok := x.v.(string); ok {
				return strconv.Quote(s)
			}
		}
		if verb == 'x' {
			if i, ok := x.v.(int64); ok {
				return strconv.FormatInt(i, 16)
			}
		}
		return m.formatValue(fr, x.v, verb)
	case string:
		return x
	case *sstr:
		var sb strings.Builder
		for _, b := range x.b {
			if c, ok := b.(int64); ok {
				sb.WriteByte(byte(c))
			} else {
				sb.WriteByte('?')
			}
		}
		return sb.String()
	case int64:
		return strconv.FormatInt(x, 10)
	case bool:
		return strconv.FormatBool(x)
	case float64:
		return strconv.FormatFloat(x, 'g', -1, 64)
	case *sym:
		return "<sym>"
	case ptr:
		if x.isNil() {
			return "<nil>"
		}
		return fmt.Sprintf("0xc%06x", x.o.id)
	case slice:
		var parts []string
		for _, e := range x.elems() {
			parts = append(parts, m.formatValue(fr, e, verb))
		}
		return "[" + strings.Join(parts, " ") + "]"
	case structure:
		var parts []string
		for _, e := range x {
			parts = append(parts, m.formatValue(fr, e, verb))
		}
		return "{" + strings.Join(parts, " ") + "}"
	case nil:
		return "<nil>"
	}
	return fmt.Sprintf("<%T>", v)
}

func (m *machine) sprintf(fr *frame, format value, args []value) value {
	fs, ok := format.(string)
	if !ok {
		return "<symbolic format>"
	}
	var sb strings.Builder
	ai := 0
	for i := 0; i < len(fs); i++ {
		c := fs[i]
		if c != '%' {
			sb.WriteByte(c)
			continue
		}
		i++
		if i >= len(fs) {
			break
		}
		// skip flags/width
		for i < len(fs) && strings.IndexByte("+-# 0123456789.", fs[i]) >= 0 {
			i++
		}
		if i >= len(fs) {
			break
		}
		verb := fs[i]
		if verb == '%' {
			sb.WriteByte('%')
			continue
		}
		if ai < len(args) {
			sb.WriteString(m.formatValue(fr, args[ai], verb))
			ai++
		} else {
			sb.WriteString("%!" + string(verb) + "(MISSING)")
		}
	}
	return sb.String()
}

// errorf builds the same concrete error types fmt.Errorf would: *fmt.wrapError when the format
// has one %w with an error operand, else *errors.errorString.
func (m *machine) errorf(fr *frame, fn *ssa.Function, format value, args []value) value {
	msg := m.sprintf(fr, format, args)
	fs, _ := format.(string)
	var wrapped iface
	if strings.Count(fs, "%w") == 1 {
		// find the operand index of %w
		ai := 0
		for i := 0; i < len(fs); i++ {
			if fs[i] != '%' {
				continue
			}
			i++
			for i < len(fs) && strings.IndexByte("+-# 0123456789.", fs[i]) >= 0 {
				i++
			}
			if i >= len(fs) {
				break
			}
			if fs[i] == '%' {
				continue
			}
			if fs[i] == 'w' && ai < len(args) {
				wrapped, _ = args[ai].(iface)
			}
			ai++
		}
	}
	fmtPkg := fn.Pkg
	if wrapped.t != nil {
		wt := fmtPkg.Pkg.Scope().Lookup("wrapError").Type()
		st := zero(wt).(structure)
		st[fieldIndex(wt, "msg")] = msg
		st[fieldIndex(wt, "err")] = wrapped
		o := m.newObject(st, "fmt.wrapError")
		return iface{t: types.NewPointer(wt), v: ptr{o: o, c: &o.v}}
	}
	errorsPkg := m.p.pkgs["errors"]
	et := errorsPkg.Pkg.Scope().Lookup("errorString").Type()
	st := zero(et).(structure)
	st[0] = msg
	o := m.newObject(st, "errors.errorString")
	return iface{t: types.NewPointer(et), v: ptr{o: o, c: &o.v}}
}

// findMethod is LookupMethod for exported method names that returns nil when the type has no
// such method (ssa.Program.LookupMethod panics in that case).
func (m *machine) findMethod(t types.Type, name string) *ssa.Function {
	if t == nil || t == runtimeErrorType {
		return nil
	}
	sel := m.p.prog.MethodSets.MethodSet(t).Lookup(nil, name)
	if sel == nil {
		return nil
	}
	return m.p.prog.MethodValue(sel)
}
