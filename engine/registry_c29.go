package main

func init() {
	checks["C29"] = &checkDef{
		Level:       levelMC,
		Explanation: "Real pool.Acquire → pipe.DoStream / DoMultiStream → RedisResultStream.HasNext/WriteTo/Error → pool.Store, with the real streamTo, over an in-memory connection and a scripted server. 1..2 commands; each reply is by decision a blob string with symbolic payload bytes (arbitrary binary, 0 or 3 bytes), a simple string, an integer, a double, a null, an error reply or an aggregate; the connection may die after the first byte of the first reply; the caller's context is live, already done before Acquire, or ends between Acquire and DoStream. Oracle: the writer receives exactly the reply's payload (byte count returned), null and error replies are reported as errors with nothing written, aggregates are refused, one WriteTo per command, a done context streams and sends nothing; at the end every connection the pool handed out has come back or has been closed and dropped (pool size == idle count), and a connection whose reply could not be consumed completely is closed before it is returned. The byte-level equivalence of streamTo with the normal decoder for every frame shape is part of C12 (VerifC12_stream).",
		Assumptions: []string{"delay bound 0 (one caller, one server goroutine); the blocking-pool pipe is built without background workers as newPipeNoBg does"},
		Trusted:     []string{"scripted server, verifConn"},
		Outside:     []string{"more than 2 commands per DoMultiStream; short-writing io.Writers; connection deadlines (SetDeadline is a no-op on the stub connection)"},
		Bounds:      map[string]any{"quick": "1..2 commands × 7 reply kinds each × cut/no cut × 3 context modes", "thorough": "1..3 commands"},
		specs: func(tier string) []specRef {
			return []specRef{hsd(rootPkg, "VerifC29_stream", P{"max_cmds": q(tier, int64(2), 3)}, 0, 3000000, 3000, "payload", "complete", "unclean")}
		},
	}
}
