package main

func init() {
	checks["C26"] = &checkDef{
		Level:       levelMC,
		Explanation: "Schedule-symbolic execution of the real pipe.Receive, Do, _backgroundRead, handlePush and subs (pubsub.go) over an in-memory connection with a scripted Pub/Sub server. Two Receive calls subscribe to channels a and b; while answering a regular command the server publishes a symbolic interleaving of messages over the two channels (every assignment of M messages to a/b); then subscription a ends by UNSUBSCRIBE (issued through Do on the same connection, with the PING trick), by cancelling its context, by Close, or by the connection dying right after the unsubscribe confirmation and before the PONG. Oracle: each callback sees only its own channel's messages, in server order, never twice; after an unsubscribe every message published before it has been delivered and Receive returns nil; cancellation returns the context error, Close returns ErrClosing; the regular command gets its own reply although pushes are interleaved; a command whose reply is cut off by the connection loss returns an error; no caller is left parked (HANG).",
		Assumptions: []string{"in VerifC26_receive at most 14 messages per subscription (the 16-slot buffer never fills); VerifC26_backpressure covers a lagging consumer whose buffer is full (burst of 18) and whose context then ends", "sequentially consistent memory; context switches at visible operations"},
		Trusted:     []string{"scripted server, verifConn; engine scheduler and intrinsics"},
		Outside:     []string{"PSUBSCRIBE/SSUBSCRIBE (same code path with another subs instance), RESP2 Pub/Sub pipes", "SetPubSubHooks channels (closed exactly once with at most one error)", "schedules needing more than D delays"},
		Bounds:      map[string]any{"quick": "M = 3 messages, ring, D = 1", "thorough": "M = 4 messages, ring and flow buffer, D = 1"},
		specs: func(tier string) []specRef {
			s := []specRef{hsd(rootPkg, "VerifC26_receive", P{"messages": q(tier, int64(3), 4), "flow": 0}, 1, 5000000, 3400, "unsubscribed", "cancelled", "closed", "cutoff")}
			s = append(s, hsd(rootPkg, "VerifC26_backpressure", P{"burst": 18}, 1, 5000000, 3400, "backpressure"))
			// one Receive on two channels, the server drops one of them and keeps publishing on the other
			s = append(s, hsd(rootPkg, "VerifC26_partial", nil, 1, 1000000, 900, "partial"))
			if tier == "thorough" {
				s = append(s, hsd(rootPkg, "VerifC26_receive", P{"messages": 3, "flow": 1}, 1, 5000000, 3400, "unsubscribed", "cancelled", "closed", "cutoff"))
			}
			return s
		},
	}
}
