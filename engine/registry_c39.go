package main

const asidePkg = "github.com/redis/rueidis/rueidisaside"

func init() {
	checks["C39"] = &checkDef{
		Level:       levelOther,
		Explanation: "PARTIAL claim. Real rueidisaside Client.Get (both lock flavours: SET NX GET PX and the acquireLock script), keepalive, register, onInvalidation, with a stub rueidis.Client whose reply to every step is a decision: the cached GET of the key (nil, stored value, another client's placeholder, error), the keep-alive marker SET (ok/error), the lock acquisition (acquired, lost to another client, error), the holder-liveness read (dead, alive, error), the setkey script (ok/error), and a loader that succeeds or fails; an environment goroutine delivers invalidations for the key so that waits end; at most 3 retry rounds. Oracle: when Get returns without error the value is never the internal 'rueidisid:' placeholder and is the loader's value or the stored one; the loader runs only after this client acquired the lock; a failed loader or a failed store is followed by the lock-release script with this client's id; a dead holder's lock is deleted before retrying. Concurrent first Gets (two goroutines on a fresh client, delay-bounded schedules): whatever the interleaving of the two id registrations, every lock is taken under the id the client registered and keeps refreshing.",
		Assumptions: []string{"the Lua scripts (delkey, setkey, acquireLock) are not executed: the stub answers in their place (their Redis-side semantics is a one-line compare-and-act each)", "commands are built by the real command builder (cmds.NewBuilder)"},
		Trusted:     []string{"stub client (harness code)"},
		Outside:     []string{"'load once across clients' and wake-ups across several clients: they need Redis' key and client-tracking semantics over several connections, which is not encoded", "marker refresh timers, Close racing with Get"},
		Bounds:      map[string]any{"quick": "≤ 3 rounds per Get, both lock flavours; two racing Gets with delay budget 1", "thorough": "≤ 4 rounds; delay budget 2"},
		specs: func(tier string) []specRef {
			r := hsd(asidePkg, "VerifC39_get", P{"max_rounds": q(tier, int64(3), 4)}, 0, 3000000, 3000, "value", "error", "released", "deadholder")
			r.dir = "rueidisaside"
			c := hsd(asidePkg, "VerifC39_concurrent", nil, q(tier, 1, 2), 3000000, 3000, "raced", "done")
			c.dir = "rueidisaside"
			return []specRef{r, c}
		},
	}
}
