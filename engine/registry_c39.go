package main

const asidePkg = "github.com/redis/rueidis/rueidisaside"

func init() {
	checks["C39"] = &checkDef{
		Level:       levelOther,
		Explanation: "Three harnesses. (3) Load once across clients: two cache-aside clients, each with its own connection and client-side cache, race for the same missing key on one Redis model; the real acquireLock/setkey/delkey scripts run in the harness-side Lua interpreter; DoCache replies are cached per connection until the server's invalidation push (OPTIN tracking of DoCache reads only; pushes are delivered asynchronously and in order with the replies of the same connection) arrives; keys and the clients' id markers expire by the virtual clock that drives the clients' timers; delay-bounded schedules. Oracle: both Gets return the loaded value, the loader ran exactly once, the value is stored under the key (a waiter that misses its wake-up ends with the context deadline and is reported). (1)+(2) single-client protocol with decided replies: Real rueidisaside Client.Get (both lock flavours: SET NX GET PX and the acquireLock script), keepalive, register, onInvalidation, with a stub rueidis.Client whose reply to every step is a decision: the cached GET of the key (nil, stored value, another client's placeholder, error), the keep-alive marker SET (ok/error), the lock acquisition (acquired, lost to another client, error), the holder-liveness read (dead, alive, error), the setkey script (ok/error), and a loader that succeeds or fails; an environment goroutine delivers invalidations for the key so that waits end; at most 3 retry rounds. Oracle: when Get returns without error the value is never the internal 'rueidisid:' placeholder and is the loader's value or the stored one; the loader runs only after this client acquired the lock; a failed loader or a failed store is followed by the lock-release script with this client's id; a dead holder's lock is deleted before retrying. Concurrent first Gets (two goroutines on a fresh client, delay-bounded schedules): whatever the interleaving of the two id registrations, every lock is taken under the id the client registered and keeps refreshing.",
		Assumptions: []string{"the Lua scripts (delkey, setkey, acquireLock) are not executed: the stub answers in their place (their Redis-side semantics is a one-line compare-and-act each)", "commands are built by the real command builder (cmds.NewBuilder)"},
		Trusted:     []string{"stub client (harness code)", "harness/luasym.go.txt (Lua interpreter, Redis + tracking model)"},
		Outside:     []string{"more than two clients, loaders that outlast the client id marker, connection loss between a client and Redis", "marker refresh timers, Close racing with Get"},
		Bounds:      map[string]any{"quick": "≤ 3 rounds per Get, both lock flavours; two racing Gets with delay budget 1; two clients with delay budget 1", "thorough": "≤ 4 rounds; delay budget 2 (both concurrent harnesses)"},
		specs: func(tier string) []specRef {
			r := hsd(asidePkg, "VerifC39_get", P{"max_rounds": q(tier, int64(3), 4)}, 0, 3000000, 3000, "value", "error", "released", "deadholder")
			r.dir = "rueidisaside"
			c := hsd(asidePkg, "VerifC39_concurrent", nil, q(tier, 1, 2), 3000000, 3000, "raced", "done")
			c.dir = "rueidisaside"
			l := hsd(asidePkg, "VerifC39_loadonce", nil, q(tier, 1, 2), 3000000, 3000, "once")
			l.dir = "rueidisaside"
			l.spec.Overrides = luaOverrides
			return []specRef{r, c, l}
		},
	}
}
