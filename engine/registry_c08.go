package main

func init() {
	checks["C08"] = &checkDef{
		Level:       levelOther,
		Explanation: "Bounded symbolic execution of the real cmds.CacheKey / MGetCacheKey / MGetCacheCmd on two argument vectors with symbolic bytes (plain cacheable commands, read-only scripts with numkeys=1, MGET/JSON.MGET elements) and of the real lru and NewSimpleCacheAdapter stores (Flight, Update, Flight) on two symbolic (key, cmd) identities. Oracle: equal cache identity implies equal command (injectivity); a flight for a different identity is never answered with the other identity's reply. Collisions are classified by cause so that each known finding matches one cause only.",
		Assumptions: []string{"argument lengths are concrete per path (0..2 bytes), contents symbolic; command names from {GET,HGET,GETRANGE,HMGET} / {EVAL_RO,EVALSHA_RO}"},
		Outside:     []string{"arguments longer than 2 bytes, more than 4 (plain) / 6 (script) argv elements", "custom CacheStore implementations other than the adapter"},
		Bounds: map[string]any{
			"quick":    "argv of 2..4 elements of 0..2 symbolic bytes; scripts with 0..2 extra args; MGET with 1..3 keys; store identities with key 0..2 and cmd 1..2 bytes",
			"thorough": "same shapes; store identities up to 3 bytes",
		},
		specs: func(tier string) []specRef {
			return []specRef{
				hsx(cmdsPkg, "VerifC08_cachekey", P{"max_argv": 4, "max_elem": 2}, 2000000, 900, "compared"),
				hsx(cmdsPkg, "VerifC08_script", P{"max_args": q(tier, int64(1), 2), "max_elem": 2}, 2000000, 900, "compared"),
				hsx(cmdsPkg, "VerifC08_mget", P{"max_keys": 3}, 2000000, 900, "mget"),
				hsx(rootPkg, "VerifC08_lru", P{"max_len": q(tier, int64(2), 3)}, 2000000, 900, "hit", "miss"),
				hsx(rootPkg, "VerifC08_adapter", P{"max_len": q(tier, int64(2), 3)}, 2000000, 900, "hit", "miss"),
			}
		},
	}
}
