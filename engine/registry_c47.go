package main

func init() {
	checks["C47"] = &checkDef{
		Level:       levelOther,
		Explanation: "Real _newPipe (pipe.go) including the real DoMulti/syncDoMulti, RESP codec and Close, over an in-memory connection with a scripted server goroutine. Options are chosen by decision: credentials (none, password, user+password, user with empty password, dynamic AuthCredentialsFn overriding static ones, failing AuthCredentialsFn), ClientName, tracking mode (default OPTIN, DisableCache, custom BCAST options), SelectDB, ReplicaOnly / ClientNoTouch / ClientNoEvict, ClientSetInfo (default, custom, disabled), AlwaysRESP2. The server is a current server (HELLO 3 → proto 3 map) or an old one (HELLO → 'unknown command', no client tracking), and may fail any one setup step with -NOAUTH or a generic -ERR. Oracle: the commands the server received, in order, equal a reference list written from the documentation (RESP3: HELLO 3 [AUTH u p] [SETNAME n], CLIENT TRACKING …, SELECT, READONLY, NO-TOUCH, NO-EVICT, CLIENT SETINFO ×2; RESP2: AUTH, HELLO 2, CLIENT SETNAME, …); RESP2 is used only after a rejected HELLO or with AlwaysRESP2, and never together with client-side caching (the connection fails with an error instead); a failing checked step (everything except READONLY and the trailing SETINFO pair) makes _newPipe return an error and close the connection; after success the first user command reaches the server only after the complete setup.",
		Assumptions: []string{"delay bound 0: the handshake is sequential (one caller, one server goroutine)", "an old server (no HELLO) answers +OK to the other batch entries except CLIENT TRACKING"},
		Trusted:     []string{"scripted server, verifConn; regexp (noHello) evaluated concretely by the host"},
		Outside:     []string{"EnableReplicaAZInfo/INFO parsing, TLS, dial errors, AuthCredentials refresh timers, sentinel pipes (r2ps)", "more than one failing step per handshake"},
		Bounds:      map[string]any{"quick": "6 credential modes × name × 3 tracking modes × db × 4 extras × 2 setinfo modes × AlwaysRESP2 × old/new server × (no failure | failure at step 0..2 × 2 kinds)", "thorough": "3 setinfo modes, failure at step 0..5"},
		specs: func(tier string) []specRef {
			pp := P{"setinfo_kinds": q(tier, int64(2), 3), "resp2_odds": q(tier, int64(2), 4), "reject_odds": q(tier, int64(2), 3), "fail_steps": q(tier, int64(3), 6)}
			return []specRef{hsd(rootPkg, "VerifC47_newPipe", pp, 0, 3000000, 3400, "resp3", "resp2", "nocache", "stepfailed", "credsfail")}
		},
	}
}
