package main

// machine = the state of one path execution: decisions, path condition, heap bookkeeping.

import (
	"fmt"
	"go/types"
	"sort"

	"golang.org/x/tools/go/ssa"
)

type outcome int

const (
	outOK outcome = iota
	outViolation
	outInfeasible  // an assumption became unsatisfiable on this path (path pruned)
	outBound       // step / decision / depth bound hit
	outUnsupported // engine cannot execute something on this path
	outUnknown     // solver inconclusive on the deciding query
)

func (o outcome) String() string {
	return [...]string{"ok", "violation", "infeasible", "bound", "unsupported", "unknown"}[o]
}

type pathEnd struct {
	out outcome
	msg string
}

type runConfig struct {
	maxSteps      int
	maxDecisions  int
	maxDepth      int
	maxConcretize int
	symAllocLimit int64
	preemptions   int  // context bound: number of pre-emptive switches allowed per path
	timersEager   bool // timers may fire at any scheduling point (else only when idle)
	schedKinds    map[string]bool
	params        map[string]int64 // harness parameters (verifParam)
}

func (c *runConfig) maxAllocElems() int { return 1 << 22 }

type nondetVar struct {
	Name  string `json:"name"`
	Label string `json:"label"`
	W     int    `json:"w"`
	Seq   int    `json:"seq"`
}

type decisionRec struct {
	kind   string
	n      int
	choice int
	val    uint64
}

type choiceRec struct {
	c int
	v uint64
}

type machine struct {
	p   *program
	wk  *worker
	cfg *runConfig
	tf  *termFactory

	// decisions
	prefix     []choiceRec
	trace      []decisionRec
	newJobs    [][]choiceRec
	pendingVal uint64
	unknownQ   int // decisions whose feasibility the solver could not decide
	randDraws  int // math/rand draws so far (identifier generation)
	havocs     int // float operations abstracted to an unconstrained result (§2.9c)

	// symbolic inputs
	vars    []*term
	varInfo []nondetVar
	pc      []*term

	// heap
	globals map[*ssa.Global]*object
	objSeq  int

	// goroutines / time
	gors        []*gor
	cur         *gor
	gseq        int
	now         int64
	nowSym      *term // symbolic wall clock in Unix ms (verifSetNowMs); nil = concrete virtual clock
	timers      []*timer
	preemptLeft int
	end         *pathEnd
	finishedCh  chan struct{}
	schedule    []int
	endModel    map[string]uint64
	endStack    string
	hostState   map[any]any // intrinsic side tables (sync.Cond queues etc.)

	// bookkeeping for evidence
	steps        int
	funcs        map[*ssa.Function]int
	overridesHit map[string]int
	reached      map[string]bool
	asserts      int // assertion / panic obligations evaluated
	symAsserts   int // of which needed the solver
	events       []string
	nondetLog    []nondetRec // harness-visible nondet calls in order (for native replay)
	lazyKey      string         // key of the lazy cell whose generator is running ("" = main flow)
	lazyCount    map[string]int // lazy slices created so far under each key
}

// nondetRec: one call of a verifNondet* function. Its model value is evaluated from terms.
type nondetRec struct {
	key   string // lazy-cell key the call belongs to ("" = main flow)
	kind  string // "int", "bytes", "bool", "choice"
	terms []*term
	lo    int64
	conc  []int64 // for free choices resolved by decision: the concrete value
}

func (m *machine) abort(o outcome, msg string) {
	panic(&pathEnd{out: o, msg: msg})
}

func (m *machine) violation(fr *frame, msg string) {
	if fr != nil {
		m.endStack = fr.stackString()
	}
	m.abort(outViolation, msg)
}

func (m *machine) noteFunc(fn *ssa.Function)  { m.funcs[fn]++ }
func (m *machine) noteOverride(n string)      { m.overridesHit[n]++ }
func (m *machine) noteAlloc(fr *frame, n int, et types.Type) {}

func (m *machine) newObject(v value, what string) *object {
	m.objSeq++
	return &object{v: v, id: m.objSeq, what: what}
}

// ---- symbolic inputs ----

func (m *machine) fresh(label string, w int) *term {
	name := fmt.Sprintf("v%d", len(m.vars))
	t := m.tf.variable(name, w)
	m.vars = append(m.vars, t)
	m.varInfo = append(m.varInfo, nondetVar{Name: name, Label: label, W: w, Seq: len(m.vars) - 1})
	return t
}

// assumeTerm adds c to the path condition without asking the solver.
func (m *machine) assumeTerm(c *term) {
	if c.isTrue() {
		return
	}
	m.pc = append(m.pc, c)
	m.wk.solver.assert(c)
}

// ---- decisions ----

// decide picks one of the alternatives (each guarded by a Bool term; const true = free
// choice). On the replayed prefix no solver query is made.
func (m *machine) decide(alts []*term, kind string) int {
	pos := len(m.trace)
	if pos >= m.cfg.maxDecisions {
		m.abort(outBound, "decision bound exceeded")
	}
	if pos < len(m.prefix) {
		c := m.prefix[pos].c
		if c >= len(alts) {
			panic(fmt.Sprintf("replay divergence at decision %d (%s): choice %d of %d", pos, kind, c, len(alts)))
		}
		m.trace = append(m.trace, decisionRec{kind, len(alts), c, m.prefix[pos].v})
		m.assumeTerm(alts[c])
		return c
	}
	pv := m.pendingVal
	m.pendingVal = 0
	var feas []int
	s := m.wk.solver
	allConst := true
	for _, a := range alts {
		if !a.isConst() {
			allConst = false
		}
	}
	if allConst {
		for i, a := range alts {
			if a.isTrue() {
				feas = append(feas, i)
			}
		}
	} else if len(alts) == 2 {
		r0 := s.checkWith(alts[0])
		m.wk.decisionQueries++
		switch r0 {
		case resUnsat:
			feas = []int{1} // the path condition is satisfiable, so the other side is
		default:
			if r0 == resUnknown {
				m.unknownQ++
			}
			feas = []int{0}
			r1 := s.checkWith(alts[1])
			m.wk.decisionQueries++
			if r1 != resUnsat {
				if r1 == resUnknown {
					m.unknownQ++
				}
				feas = append(feas, 1)
			}
		}
	} else {
		for i, a := range alts {
			if a.isFalse() {
				continue
			}
			if a.isTrue() {
				feas = append(feas, i)
				continue
			}
			r := s.checkWith(a)
			m.wk.decisionQueries++
			if r == resUnknown {
				m.unknownQ++
			}
			if r != resUnsat {
				feas = append(feas, i)
			}
		}
	}
	if len(feas) == 0 {
		m.abort(outInfeasible, "no feasible alternative at "+kind)
	}
	if len(feas) > 1 {
		base := make([]choiceRec, pos, pos+1)
		for i, d := range m.trace {
			base[i] = choiceRec{d.choice, d.val}
		}
		for _, alt := range feas[1:] {
			j := append(append([]choiceRec{}, base...), choiceRec{alt, pv})
			m.newJobs = append(m.newJobs, j)
		}
	}
	c := feas[0]
	m.trace = append(m.trace, decisionRec{kind, len(alts), c, pv})
	m.assumeTerm(alts[c])
	return c
}

func (m *machine) decideBool(c *term, kind string) bool {
	if c.isConst() {
		return c.c != 0
	}
	return m.decide([]*term{c, m.tf.not(c)}, kind) == 0
}

// choose is a free environment choice among n alternatives.
func (m *machine) choose(n int, kind string) int {
	if n == 1 {
		return 0
	}
	alts := make([]*term, n)
	for i := range alts {
		alts[i] = m.tf.boolc(true)
	}
	return m.decide(alts, kind)
}

// concretize explores every feasible value of a symbolic integer: repeatedly take a model
// value v and decide between "t == v" and "t != v". The value is stored with the decision so
// that replays of the prefix need no solver query.
func (m *machine) concretize(s *sym, signed bool, what string) int64 {
	t := s.t
	if t.isConst() {
		return canon(t.c, t.w, signed)
	}
	sv := m.wk.solver
	for n := 0; ; n++ {
		if n > m.cfg.maxConcretize {
			m.abort(outBound, "concretize: too many values for "+what)
		}
		pos := len(m.trace)
		var val uint64
		if pos < len(m.prefix) {
			val = m.prefix[pos].v
		} else {
			r := sv.check()
			m.wk.decisionQueries++
			if r != resSat {
				m.abort(outUnknown, "concretize: solver "+r.String()+" for "+what)
			}
			val = sv.valueOf(t)
		}
		m.pendingVal = val
		eq := m.tf.eq(t, m.tf.bv(val, t.w))
		if m.decideBool(eq, "concretize:"+what) {
			return canon(val, t.w, signed)
		}
	}
}

// concInt returns a concrete int64 from a possibly symbolic integer value.
func (m *machine) concInt(v value, what string) int64 {
	switch v := v.(type) {
	case int64:
		return v
	case *sym:
		return m.concretize(v, true, what)
	}
	panic(fmt.Sprintf("concInt(%s): %T", what, v))
}

// concLen: concrete non-negative length or Go panic.
func (m *machine) concLen(fr *frame, v value, panicMsg string) int64 {
	return m.concLenSz(fr, v, panicMsg, 1)
}

// concLenSz: esz is the element size in bytes; the allocation limit (symAllocLimit) is in bytes.
func (m *machine) concLenSz(fr *frame, v value, panicMsg string, esz int64) int64 {
	if esz < 1 {
		esz = 1
	}
	if s, ok := v.(*sym); ok && !s.t.isConst() {
		neg := m.tf.cmp("bvslt", s.t, m.tf.bv(0, s.t.w))
		m.asserts++
		m.symAsserts++
		if m.decideBool(neg, "len<0") {
			m.goPanic(fr, panicMsg)
		}
		lim := m.cfg.symAllocLimit / esz
		big := m.tf.cmp("bvslt", m.tf.bv(uint64(lim), s.t.w), s.t)
		if m.decideBool(big, "len>limit") {
			m.largeAlloc(fr, panicMsg+" (symbolic length above engine limit)")
		}
	}
	n := m.concInt(v, "length")
	if n < 0 {
		m.goPanic(fr, panicMsg)
	}
	if n > int64(m.cfg.maxAllocElems()) || (m.cfg.params["alloc_is_violation"] != 0 && n > m.cfg.symAllocLimit/esz) {
		m.largeAlloc(fr, fmt.Sprintf("%s (%d elements of %d bytes)", panicMsg, n, esz))
	}
	return n
}

// largeAlloc: an allocation whose size exceeds what the engine materialises. With the harness
// parameter alloc_is_violation it is the property's allocation oracle (C13), else a bound.
func (m *machine) largeAlloc(fr *frame, what string) {
	if m.cfg.params["alloc_is_violation"] != 0 {
		m.violation(fr, "allocation beyond limit requested before the data was received: "+what)
	}
	m.abort(outBound, "allocation larger than engine limit: "+what)
}

// ---- globals ----

// constTablePkgs: standard-library packages whose globals are constant tables after init
// (never written by any function executed later). Their initialisers run once per worker and
// the resulting objects are shared by all paths of that worker.
var constTablePkgs = map[string]bool{"strconv": true, "math": true, "math/bits": true, "unicode/utf8": true,
	"unicode": true, "encoding/hex": true, "encoding/binary": true, "internal/itoa": true, "hash/crc32": false}

func sharedPkg(p *ssa.Package) bool { return p != nil && constTablePkgs[p.Pkg.Path()] }

func (m *machine) global(g *ssa.Global) *object {
	if sharedPkg(g.Pkg) {
		if o, ok := m.wk.sharedGlobals[g]; ok {
			return o
		}
		t := g.Type().Underlying().(*types.Pointer).Elem()
		o := m.newObject(zero(t), "global "+g.String())
		m.wk.sharedGlobals[g] = o
		return o
	}
	if o, ok := m.globals[g]; ok {
		return o
	}
	t := g.Type().Underlying().(*types.Pointer).Elem()
	o := m.newObject(zero(t), "global "+g.String())
	m.globals[g] = o
	return o
}

func (m *machine) sortedFuncs() []string {
	var out []string
	for fn := range m.funcs {
		out = append(out, fn.String())
	}
	sort.Strings(out)
	return out
}
