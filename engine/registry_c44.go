package main

var urlOverrides = map[string]string{"strconv.Atoi": "verifAtoi", "time.ParseDuration": "verifParseDuration", "strconv.ParseBool": "verifParseBool"}

func init() {
	checks["C44"] = &checkDef{
		Level:       levelOther,
		Explanation: "Bounded symbolic execution of the real ParseURL (url.go) together with the real net/url.Parse, (*URL).Query, net.SplitHostPort/JoinHostPort. The URL text is assembled from components: all six schemes plus an invalid and an empty one, userinfo none/user/user:password, four host forms, four path forms, and every unordered pair of the ten supported query parameters in both textual orders. Component values are symbolic bytes over [a-z0-9]; strconv.Atoi, time.ParseDuration and strconv.ParseBool are overridden by uninterpreted stubs (arbitrary value and success flag per distinct input text, memoised), so 'any value' is covered without parsing digits. Oracle: a reference mapping written from the documentation — each option equals the image of its own parameter (dial_timeout → Dialer.Timeout, write_timeout → ConnWriteTimeout, …), untouched otherwise; a value the stub rejects makes ParseURL return an error.",
		Assumptions: []string{"query values are 1..2 bytes over [a-z0-9] (URL escaping is net/url's job and is not re-verified)", "addr values come from the concrete menu {h2:7000, h3, :7001}"},
		Trusted:     []string{"stubs for strconv.Atoi/time.ParseDuration/strconv.ParseBool: uninterpreted (value, ok) per distinct input"},
		Outside:     []string{"three or more query parameters at once (each parameter is handled by an independent straight-line block; pairs cover one parameter overwriting another's option)", "percent-escaped or repeated parameters other than addr"},
		Bounds: map[string]any{
			"quick":    "7 schemes × 3 userinfo × 4 hosts × 4 paths without query; 4 schemes × path/no path × all 55 parameter pairs (+ singles, none) × both orders × value classes",
			"thorough": "same",
		},
		specs: func(tier string) []specRef {
			a := hsx(rootPkg, "VerifC44_structure", nil, 2000000, 900, "structure", "badscheme")
			b := hsx(rootPkg, "VerifC44_query", nil, 2000000, 1800, "accepted", "rejected")
			a.spec.Overrides, b.spec.Overrides = urlOverrides, urlOverrides
			return []specRef{a, b}
		},
	}
}
