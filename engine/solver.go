package main

// Back end: one long-lived SMT solver process per worker, spoken to in SMT-LIB2 over pipes
// (incremental, push/pop). z3's incremental core is weak on hard bit-vector queries, so a query
// that does not finish within a short limit is re-run from scratch in a fresh one-shot process
// (set-logic QF_BV: tactic pipeline with bit-blasting) with the long limit.
// Any "(error" line makes the answer inconclusive.

import (
	"bufio"
	"fmt"
	"io"
	"os"
	"os/exec"
	"strconv"
	"strings"
	"time"
)

type solverKind int

const (
	solverZ3 solverKind = iota
	solverZ3New
	solverCVC5
)

func (k solverKind) String() string {
	switch k {
	case solverZ3:
		return "z3-4.8.12"
	case solverZ3New:
		return "z3-new-5.1.0"
	}
	return "cvc5-1.0"
}

// mainSolverKind: z3 5.1.0 (z3-new) by default — measured 40x faster than 4.8.12 on table
// look-ups — SYMGO_SOLVER=z3|z3-new|cvc5 overrides.
func mainSolverKind() solverKind {
	switch os.Getenv("SYMGO_SOLVER") {
	case "z3":
		return solverZ3
	case "cvc5":
		return solverCVC5
	}
	return solverZ3New
}

type proc struct {
	cmd *exec.Cmd
	in  io.WriteCloser
	out *bufio.Reader
}

func startProc(kind solverKind) (*proc, error) {
	var cmd *exec.Cmd
	switch kind {
	case solverZ3:
		cmd = exec.Command("/usr/bin/z3", "-in", "-smt2")
	case solverZ3New:
		cmd = exec.Command("z3-new", "-in", "-smt2")
	case solverCVC5:
		cmd = exec.Command("cvc5", "--incremental", "--lang=smt2", "--produce-models")
	}
	in, err := cmd.StdinPipe()
	if err != nil {
		return nil, err
	}
	out, err := cmd.StdoutPipe()
	if err != nil {
		return nil, err
	}
	if err := cmd.Start(); err != nil {
		return nil, err
	}
	return &proc{cmd: cmd, in: in, out: bufio.NewReaderSize(out, 1<<16)}, nil
}

func (p *proc) kill() {
	if p == nil || p.cmd == nil {
		return
	}
	p.in.Close()
	p.cmd.Process.Kill()
	p.cmd.Wait()
	p.cmd = nil
}

var smtLog io.Writer

func (p *proc) send(line string) {
	if smtLog != nil {
		fmt.Fprintf(smtLog, "%s\n", line)
	}
	io.WriteString(p.in, line)
	io.WriteString(p.in, "\n")
}

func (p *proc) readLine() (string, error) {
	line, err := p.out.ReadString('\n')
	return strings.TrimSpace(line), err
}

// readVerdict reads until sat/unsat/unknown; returns the number of error lines seen.
func (p *proc) readVerdict() (satResult, int) {
	errs := 0
	for {
		line, err := p.readLine()
		if err != nil {
			return resUnknown, errs + 1
		}
		switch {
		case line == "":
		case strings.HasPrefix(line, "(error"):
			errs++
		case line == "sat":
			return resSat, errs
		case line == "unsat":
			return resUnsat, errs
		case line == "unknown" || line == "timeout":
			return resUnknown, errs
		}
	}
}

func (p *proc) readSexp() string {
	depth := 0
	var acc strings.Builder
	started := false
	for {
		line, err := p.readLine()
		if err != nil {
			break
		}
		acc.WriteString(line)
		acc.WriteByte(' ')
		for _, ch := range line {
			if ch == '(' {
				depth++
				started = true
			} else if ch == ')' {
				depth--
			}
		}
		if started && depth <= 0 {
			break
		}
	}
	return acc.String()
}

type solver struct {
	kind    solverKind
	main    *proc
	alt     *proc // one-shot process of the last fallback check (kept for get-value)
	useAlt  bool
	defined []map[int]bool // per push level: ids of terms/vars already defined
	lines   [][]string     // per push level: declarations, definitions and assertions sent
	queries int
	fallbacks int
	time    time.Duration
	errors  int
	quickMs int // incremental limit
	slowMs  int // one-shot limit
	// differential re-checking: every diffEvery-th decided query is re-run, from the recorded
	// script, in a one-shot process of a different solver (cvc5 1.0; z3 4.8.12 when cvc5 is the
	// main solver) and the verdicts are compared
	diffEvery, diffMax                             int
	diffSampled, diffAgreed, diffOther, diffBad    int
	diffBadScript                                  string
}

func newSolver(kind solverKind, timeoutMs int) (*solver, error) {
	p, err := startProc(kind)
	if err != nil {
		return nil, err
	}
	s := &solver{kind: kind, main: p, quickMs: 1500, slowMs: timeoutMs}
	s.defined = []map[int]bool{{}}
	s.lines = [][]string{nil}
	if kind == solverCVC5 {
		p.send("(set-logic QF_BV)")
		p.send(fmt.Sprintf("(set-option :tlimit-per %d)", s.quickMs))
	} else {
		p.send("(set-option :produce-models true)")
		p.send(fmt.Sprintf("(set-option :timeout %d)", s.quickMs))
	}
	return s, nil
}

func (s *solver) close() {
	if s == nil {
		return
	}
	s.main.kill()
	s.alt.kill()
	s.alt = nil
}

// record sends a state-changing line (declaration, definition, assertion) and logs it.
func (s *solver) record(line string) {
	s.lines[len(s.lines)-1] = append(s.lines[len(s.lines)-1], line)
	s.main.send(line)
}

func (s *solver) push() {
	s.main.send("(push 1)")
	s.defined = append(s.defined, map[int]bool{})
	s.lines = append(s.lines, nil)
}

func (s *solver) pop() {
	s.main.send("(pop 1)")
	s.defined = s.defined[:len(s.defined)-1]
	s.lines = s.lines[:len(s.lines)-1]
	s.useAlt = false
}

func (s *solver) isDefined(id int) bool {
	for _, m := range s.defined {
		if m[id] {
			return true
		}
	}
	return false
}

// ref returns the SMT-LIB text denoting t, emitting declarations/definitions as needed.
func (s *solver) ref(t *term) string {
	switch t.op {
	case "const":
		return constStr(t)
	case "var":
		if !s.isDefined(t.id) {
			s.defined[len(s.defined)-1][t.id] = true
			s.record(fmt.Sprintf("(declare-fun %s () %s)", t.name, sortOf(t.w)))
		}
		return t.name
	}
	if s.isDefined(t.id) {
		return "t" + strconv.Itoa(t.id)
	}
	parts := make([]string, len(t.args))
	for i, a := range t.args {
		parts[i] = s.ref(a)
	}
	var body string
	switch t.op {
	case "extract":
		body = fmt.Sprintf("((_ extract %d %d) %s)", t.p0, t.p1, parts[0])
	case "zext":
		body = fmt.Sprintf("((_ zero_extend %d) %s)", t.p0, parts[0])
	case "sext":
		body = fmt.Sprintf("((_ sign_extend %d) %s)", t.p0, parts[0])
	default:
		body = "(" + t.op + " " + strings.Join(parts, " ") + ")"
	}
	if t.sz <= 3 {
		return body
	}
	s.defined[len(s.defined)-1][t.id] = true
	s.record(fmt.Sprintf("(define-fun t%d () %s %s)", t.id, sortOf(t.w), body))
	return "t" + strconv.Itoa(t.id)
}

func (s *solver) assert(t *term) {
	if t.isTrue() {
		return
	}
	r := s.ref(t)
	s.record("(assert " + r + ")")
}

type satResult int

const (
	resUnsat satResult = iota
	resSat
	resUnknown
)

func (r satResult) String() string { return [...]string{"unsat", "sat", "unknown"}[r] }

func (s *solver) check() satResult {
	t0 := time.Now()
	s.queries++
	s.useAlt = false
	s.main.send("(check-sat)")
	res, errs := s.main.readVerdict()
	s.errors += errs
	if res == resUnknown && errs == 0 {
		res = s.fallback()
	}
	if s.errors > 0 {
		res = resUnknown
	}
	s.time += time.Since(t0)
	if s.diffEvery > 0 && res != resUnknown && s.queries%s.diffEvery == 0 && s.diffSampled < s.diffMax {
		s.differential(res)
	}
	return res
}

// differential re-runs the current assertion stack in another solver and compares verdicts.
func (s *solver) differential(got satResult) {
	other := solverCVC5
	if s.kind == solverCVC5 {
		other = solverZ3
	}
	p, err := startProc(other)
	if err != nil {
		return
	}
	defer p.kill()
	s.diffSampled++
	if other == solverCVC5 {
		p.send("(set-logic QF_BV)")
		p.send("(set-option :tlimit-per 10000)")
	} else {
		p.send("(set-option :timeout 10000)")
	}
	var script []string
	for _, lvl := range s.lines {
		for _, l := range lvl {
			p.send(l)
			script = append(script, l)
		}
	}
	p.send("(check-sat)")
	res, errs := p.readVerdict()
	switch {
	case errs > 0 || res == resUnknown:
		s.diffOther++
	case res == got:
		s.diffAgreed++
	default:
		s.diffBad++
		if s.diffBadScript == "" {
			s.diffBadScript = strings.Join(script, "\n")
		}
	}
}

// fallback re-runs the current assertion stack in a fresh one-shot process.
func (s *solver) fallback() satResult {
	s.fallbacks++
	s.alt.kill()
	s.alt = nil
	kinds := []solverKind{s.kind}
	if s.kind == solverZ3 {
		kinds = append(kinds, solverZ3New)
	} else if s.kind == solverZ3New {
		kinds = append(kinds, solverZ3)
	}
	for _, k := range kinds {
		p, err := startProc(k)
		if err != nil {
			continue
		}
		if k == solverCVC5 {
			p.send(fmt.Sprintf("(set-option :tlimit-per %d)", s.slowMs))
		} else {
			p.send("(set-option :produce-models true)")
			p.send(fmt.Sprintf("(set-option :timeout %d)", s.slowMs))
		}
		p.send("(set-logic QF_BV)")
		for _, lvl := range s.lines {
			for _, l := range lvl {
				p.send(l)
			}
		}
		p.send("(check-sat)")
		res, errs := p.readVerdict()
		if errs == 0 && res != resUnknown {
			s.alt = p
			s.useAlt = true
			return res
		}
		p.kill()
	}
	return resUnknown
}

// checkWith asks whether the current assertions plus extra are satisfiable.
func (s *solver) checkWith(extra *term) satResult {
	if extra.isTrue() {
		return s.check()
	}
	if extra.isFalse() {
		return resUnsat
	}
	s.push()
	s.assert(extra)
	r := s.check()
	s.pop()
	return r
}

func (s *solver) modelProc() *proc {
	if s.useAlt && s.alt != nil {
		return s.alt
	}
	return s.main
}

func parseVal(tok string) (uint64, bool) {
	tok = strings.TrimSpace(tok)
	switch {
	case tok == "true":
		return 1, true
	case tok == "false":
		return 0, true
	case strings.HasPrefix(tok, "#x"):
		u, err := strconv.ParseUint(tok[2:], 16, 64)
		return u, err == nil
	case strings.HasPrefix(tok, "#b"):
		u, err := strconv.ParseUint(tok[2:], 2, 64)
		return u, err == nil
	case strings.HasPrefix(tok, "(_ bv"):
		f := strings.Fields(tok[5:])
		u, err := strconv.ParseUint(f[0], 10, 64)
		return u, err == nil
	}
	return 0, false
}

// values returns model values for the given variables; must follow a sat check().
func (s *solver) values(vars []*term) map[string]uint64 {
	m := map[string]uint64{}
	if len(vars) == 0 {
		return m
	}
	p := s.modelProc()
	var sb strings.Builder
	sb.WriteString("(get-value (")
	for _, v := range vars {
		if !s.isDefined(v.id) {
			continue // never sent to the solver: unconstrained, any value (0) will do
		}
		sb.WriteString(v.name)
		sb.WriteByte(' ')
	}
	sb.WriteString("))")
	if sb.Len() == len("(get-value ())") {
		return m
	}
	p.send(sb.String())
	txt := p.readSexp()
	for _, v := range vars {
		i := strings.Index(txt, "("+v.name+" ")
		if i < 0 {
			continue
		}
		rest := txt[i+len(v.name)+2:]
		j := strings.IndexByte(rest, ')')
		if j < 0 {
			continue
		}
		if u, ok := parseVal(rest[:j]); ok {
			m[v.name] = u
		}
	}
	return m
}

// valueOf returns the model value of an arbitrary term; must follow a sat check().
func (s *solver) valueOf(t *term) uint64 {
	if s.useAlt && s.alt != nil {
		// the one-shot process does not know definitions made after its start: expand inline
		txt := s.inline(t, map[*term]string{})
		s.alt.send("(get-value (" + txt + "))")
		return s.parseSingle(s.alt.readSexp())
	}
	r := s.ref(t)
	s.main.send("(get-value (" + r + "))")
	return s.parseSingle(s.main.readSexp())
}

func (s *solver) inline(t *term, memo map[*term]string) string {
	switch t.op {
	case "const":
		return constStr(t)
	case "var":
		return t.name
	}
	if s.isDefined(t.id) {
		return "t" + strconv.Itoa(t.id)
	}
	if r, ok := memo[t]; ok {
		return r
	}
	parts := make([]string, len(t.args))
	for i, a := range t.args {
		parts[i] = s.inline(a, memo)
	}
	var body string
	switch t.op {
	case "extract":
		body = fmt.Sprintf("((_ extract %d %d) %s)", t.p0, t.p1, parts[0])
	case "zext":
		body = fmt.Sprintf("((_ zero_extend %d) %s)", t.p0, parts[0])
	case "sext":
		body = fmt.Sprintf("((_ sign_extend %d) %s)", t.p0, parts[0])
	default:
		body = "(" + t.op + " " + strings.Join(parts, " ") + ")"
	}
	memo[t] = body
	return body
}

func (s *solver) parseSingle(txt string) uint64 {
	txt = strings.TrimSpace(txt)
	// ((<expr> <value>))
	txt = strings.TrimSuffix(txt, "))")
	if strings.HasSuffix(txt, ")") { // (_ bvN w
		if k := strings.LastIndex(txt, "(_ bv"); k >= 0 {
			if u, ok := parseVal(txt[k:]); ok {
				return u
			}
		}
	}
	tok := txt
	if i := strings.LastIndexAny(txt, " "); i >= 0 {
		tok = txt[i+1:]
	}
	if u, ok := parseVal(tok); ok {
		return u
	}
	s.errors++
	return 0
}
