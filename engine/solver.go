package main

// Back end: one long-lived SMT solver process per worker, spoken to in SMT-LIB2 over pipes.
// Any "(error" line makes the answer inconclusive.

import (
	"bufio"
	"fmt"
	"io"
	"os/exec"
	"strconv"
	"strings"
	"time"
)

type solverKind int

const (
	solverZ3 solverKind = iota
	solverZ3New
	solverCVC5
)

func (k solverKind) String() string {
	switch k {
	case solverZ3:
		return "z3-4.8.12"
	case solverZ3New:
		return "z3-new-5.1.0"
	}
	return "cvc5-1.0"
}

type solver struct {
	kind    solverKind
	cmd     *exec.Cmd
	in      io.WriteCloser
	out     *bufio.Reader
	defined []map[int]bool // per push level: ids of terms/vars already defined
	queries int
	time    time.Duration
	errors  int
	timeout int // ms per query
	log     *strings.Builder
}

func newSolver(kind solverKind, timeoutMs int) (*solver, error) {
	var cmd *exec.Cmd
	switch kind {
	case solverZ3:
		cmd = exec.Command("/usr/bin/z3", "-in", "-smt2")
	case solverZ3New:
		cmd = exec.Command("z3-new", "-in", "-smt2")
	case solverCVC5:
		cmd = exec.Command("cvc5", "--incremental", "--lang=smt2", "--produce-models")
	}
	in, err := cmd.StdinPipe()
	if err != nil {
		return nil, err
	}
	out, err := cmd.StdoutPipe()
	if err != nil {
		return nil, err
	}
	cmd.Stderr = nil
	if err := cmd.Start(); err != nil {
		return nil, err
	}
	s := &solver{kind: kind, cmd: cmd, in: in, out: bufio.NewReaderSize(out, 1<<16), timeout: timeoutMs}
	s.defined = []map[int]bool{{}}
	if kind == solverCVC5 {
		s.send("(set-logic QF_BV)")
		s.send(fmt.Sprintf("(set-option :tlimit-per %d)", timeoutMs))
	} else {
		s.send("(set-option :produce-models true)")
		s.send(fmt.Sprintf("(set-option :timeout %d)", timeoutMs))
	}
	return s, nil
}

func (s *solver) close() {
	if s == nil || s.cmd == nil {
		return
	}
	s.in.Close()
	s.cmd.Process.Kill()
	s.cmd.Wait()
	s.cmd = nil
}

func (s *solver) send(line string) {
	if s.log != nil {
		s.log.WriteString(line)
		s.log.WriteByte('\n')
	}
	io.WriteString(s.in, line)
	io.WriteString(s.in, "\n")
}

func (s *solver) push() {
	s.send("(push 1)")
	s.defined = append(s.defined, map[int]bool{})
}

func (s *solver) pop() {
	s.send("(pop 1)")
	s.defined = s.defined[:len(s.defined)-1]
}

func (s *solver) isDefined(id int) bool {
	for _, m := range s.defined {
		if m[id] {
			return true
		}
	}
	return false
}

// ref returns the SMT-LIB text denoting t, emitting declarations/definitions as needed.
func (s *solver) ref(t *term) string {
	switch t.op {
	case "const":
		return constStr(t)
	case "var":
		if !s.isDefined(t.id) {
			s.defined[len(s.defined)-1][t.id] = true
			s.send(fmt.Sprintf("(declare-fun %s () %s)", t.name, sortOf(t.w)))
		}
		return t.name
	}
	if s.isDefined(t.id) {
		return "t" + strconv.Itoa(t.id)
	}
	parts := make([]string, len(t.args))
	for i, a := range t.args {
		parts[i] = s.ref(a)
	}
	var body string
	switch t.op {
	case "extract":
		body = fmt.Sprintf("((_ extract %d %d) %s)", t.p0, t.p1, parts[0])
	case "zext":
		body = fmt.Sprintf("((_ zero_extend %d) %s)", t.p0, parts[0])
	case "sext":
		body = fmt.Sprintf("((_ sign_extend %d) %s)", t.p0, parts[0])
	default:
		body = "(" + t.op + " " + strings.Join(parts, " ") + ")"
	}
	if t.sz <= 3 {
		return body
	}
	s.defined[len(s.defined)-1][t.id] = true
	s.send(fmt.Sprintf("(define-fun t%d () %s %s)", t.id, sortOf(t.w), body))
	return "t" + strconv.Itoa(t.id)
}

func (s *solver) assert(t *term) {
	if t.isTrue() {
		return
	}
	r := s.ref(t)
	s.send("(assert " + r + ")")
}

type satResult int

const (
	resUnsat satResult = iota
	resSat
	resUnknown
)

func (r satResult) String() string { return [...]string{"unsat", "sat", "unknown"}[r] }

func (s *solver) readLine() (string, error) {
	line, err := s.out.ReadString('\n')
	return strings.TrimSpace(line), err
}

func (s *solver) check() satResult {
	t0 := time.Now()
	s.send("(check-sat)")
	s.queries++
	res := resUnknown
	for {
		line, err := s.readLine()
		if err != nil {
			s.errors++
			break
		}
		if line == "" {
			continue
		}
		if strings.HasPrefix(line, "(error") {
			s.errors++
			// keep reading until the verdict line arrives (errors precede it)
			continue
		}
		switch line {
		case "sat":
			res = resSat
		case "unsat":
			res = resUnsat
		case "unknown", "timeout":
			res = resUnknown
		default:
			continue
		}
		break
	}
	if s.errors > 0 {
		res = resUnknown
	}
	s.time += time.Since(t0)
	return res
}

// checkWith asks whether the current assertions plus extra are satisfiable.
func (s *solver) checkWith(extra *term) satResult {
	if extra.isTrue() {
		return s.check()
	}
	if extra.isFalse() {
		return resUnsat
	}
	s.push()
	s.assert(extra)
	r := s.check()
	s.pop()
	return r
}

// values returns model values for the given variables; must follow a sat check() at the same level.
func (s *solver) values(vars []*term) map[string]uint64 {
	m := map[string]uint64{}
	if len(vars) == 0 {
		return m
	}
	var sb strings.Builder
	sb.WriteString("(get-value (")
	for _, v := range vars {
		sb.WriteString(s.ref(v))
		sb.WriteByte(' ')
	}
	sb.WriteString("))")
	s.send(sb.String())
	// read a balanced s-expression
	depth := 0
	var acc strings.Builder
	started := false
	for {
		line, err := s.readLine()
		if err != nil {
			break
		}
		acc.WriteString(line)
		acc.WriteByte(' ')
		for _, ch := range line {
			if ch == '(' {
				depth++
				started = true
			} else if ch == ')' {
				depth--
			}
		}
		if started && depth <= 0 {
			break
		}
	}
	txt := acc.String()
	for _, v := range vars {
		i := strings.Index(txt, "("+v.name+" ")
		if i < 0 {
			continue
		}
		rest := txt[i+len(v.name)+2:]
		j := strings.IndexByte(rest, ')')
		if j < 0 {
			continue
		}
		tok := strings.TrimSpace(rest[:j])
		switch {
		case tok == "true":
			m[v.name] = 1
		case tok == "false":
			m[v.name] = 0
		case strings.HasPrefix(tok, "#x"):
			u, _ := strconv.ParseUint(tok[2:], 16, 64)
			m[v.name] = u
		case strings.HasPrefix(tok, "#b"):
			u, _ := strconv.ParseUint(tok[2:], 2, 64)
			m[v.name] = u
		case strings.HasPrefix(tok, "(_ bv"):
			f := strings.Fields(tok[5:])
			u, _ := strconv.ParseUint(f[0], 10, 64)
			m[v.name] = u
		}
	}
	return m
}

// valueOf returns the model value of an arbitrary term; must follow a sat check().
func (s *solver) valueOf(t *term) uint64 {
	r := s.ref(t)
	s.send("(get-value (" + r + "))")
	depth := 0
	var acc strings.Builder
	started := false
	for {
		line, err := s.readLine()
		if err != nil {
			break
		}
		acc.WriteString(line)
		acc.WriteByte(' ')
		for _, ch := range line {
			if ch == '(' {
				depth++
				started = true
			} else if ch == ')' {
				depth--
			}
		}
		if started && depth <= 0 {
			break
		}
	}
	txt := strings.TrimSpace(acc.String())
	// ((<expr> <value>))
	txt = strings.TrimSuffix(strings.TrimSpace(txt), "))")
	i := strings.LastIndexAny(txt, " ")
	tok := txt
	if strings.HasSuffix(txt, ")") { // (_ bvN w)
		k := strings.LastIndex(txt, "(_ bv")
		if k >= 0 {
			f := strings.Fields(txt[k+5:])
			u, _ := strconv.ParseUint(f[0], 10, 64)
			return u
		}
	}
	if i >= 0 {
		tok = txt[i+1:]
	}
	switch {
	case tok == "true":
		return 1
	case tok == "false":
		return 0
	case strings.HasPrefix(tok, "#x"):
		u, _ := strconv.ParseUint(tok[2:], 16, 64)
		return u
	case strings.HasPrefix(tok, "#b"):
		u, _ := strconv.ParseUint(tok[2:], 2, 64)
		return u
	}
	s.errors++
	return 0
}
