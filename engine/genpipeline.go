package main

// Driver-generated sweep for C41: every method of rueidiscompat.Pipeline that hands out a Cmder
// is enumerated from the package's types on every run; one harness case per method is
// synthesised with simple concrete arguments (the subject is the queueing discipline, not the
// argument encoders).

import (
	"fmt"
	"go/types"
	"path/filepath"
	"sort"
	"strings"

	"golang.org/x/tools/go/packages"
)

func generatePipelineHarness() (int, error) {
	dir := filepath.Join(repoDir, "rueidiscompat")
	cfg := &packages.Config{Mode: packages.NeedTypes | packages.NeedName | packages.NeedImports | packages.NeedDeps, Dir: dir, Env: goEnv()}
	pkgs, err := packages.Load(cfg, ".")
	if err != nil || len(pkgs) != 1 || pkgs[0].Types == nil {
		return 0, fmt.Errorf("cannot load rueidiscompat types: %v", err)
	}
	pkg := pkgs[0].Types
	scope := pkg.Scope()
	pl, ok := scope.Lookup("Pipeline").(*types.TypeName)
	if !ok {
		return 0, fmt.Errorf("rueidiscompat.Pipeline not found")
	}
	cmderObj, ok := scope.Lookup("Cmder").(*types.TypeName)
	if !ok {
		return 0, fmt.Errorf("rueidiscompat.Cmder not found")
	}
	cmder := cmderObj.Type().Underlying().(*types.Interface)
	qual := func(p *types.Package) string {
		if p == pkg {
			return ""
		}
		return p.Name()
	}
	var synth func(t types.Type, depth int) (string, bool)
	synth = func(t types.Type, depth int) (string, bool) {
		if depth > 3 {
			return "", false
		}
		ts := types.TypeString(t, qual)
		switch ts {
		case "context.Context":
			return "ctx", true
		case "time.Duration":
			return "time.Second", true
		case "time.Time":
			return "time.Unix(1, 0)", true
		}
		switch u := t.Underlying().(type) {
		case *types.Basic:
			switch {
			case u.Info()&types.IsString != 0:
				return ts + `("a")`, true
			case u.Info()&types.IsBoolean != 0:
				return ts + "(false)", true
			case u.Info()&types.IsInteger != 0:
				return ts + "(1)", true
			case u.Info()&types.IsFloat != 0:
				return ts + "(1.5)", true
			}
			return "", false
		case *types.Slice:
			e, ok := synth(u.Elem(), depth+1)
			if !ok {
				return "", false
			}
			if it, isIface := u.Elem().Underlying().(*types.Interface); isIface && it.NumMethods() == 0 {
				return ts + "{" + e + `, "b", "c"}`, true
			}
			return ts + "{" + e + "}", true
		case *types.Array:
			return ts + "{}", true
		case *types.Map:
			return ts + "{}", true
		case *types.Struct:
			if n, ok := t.(*types.Named); ok && n.Obj().Pkg() != nil && !n.Obj().Exported() && n.Obj().Pkg() != pkg {
				return "", false
			}
			return ts + "{}", true
		case *types.Pointer:
			if _, ok := u.Elem().Underlying().(*types.Struct); ok {
				return "&" + types.TypeString(u.Elem(), qual) + "{}", true
			}
			return "nil", true
		case *types.Interface:
			if u.NumMethods() == 0 {
				return `"a"`, true
			}
			return "nil", true
		case *types.Signature:
			return "nil", true
		}
		return "", false
	}
	ms := types.NewMethodSet(types.NewPointer(pl.Type()))
	type gm struct {
		name string
		args []string // one variant
		alt  []string // variadic-empty variant, nil when none
	}
	var methods []gm
	skipped := []string{}
	imports := map[string]bool{}
	for i := 0; i < ms.Len(); i++ {
		fn := ms.At(i).Obj().(*types.Func)
		if !fn.Exported() {
			continue
		}
		sig := fn.Type().(*types.Signature)
		if sig.Results().Len() != 1 || !types.Implements(sig.Results().At(0).Type(), cmder) {
			continue
		}
		var args []string
		ok := true
		for j := 0; j < sig.Params().Len(); j++ {
			pt := sig.Params().At(j).Type()
			if sig.Variadic() && j == sig.Params().Len()-1 {
				pt = pt.(*types.Slice).Elem()
			}
			a, good := synth(pt, 0)
			if !good {
				ok = false
				break
			}
			args = append(args, a)
			if sig.Variadic() && j == sig.Params().Len()-1 {
				if it, isIface := pt.Underlying().(*types.Interface); isIface && it.NumMethods() == 0 {
					// a single variadic 'any' is inspected with reflection (struct scanning),
					// which the engine does not execute: pass two values
					args = append(args, `"b"`, `"c"`)
				}
			}
		}
		if !ok {
			skipped = append(skipped, fn.Name())
			continue
		}
		m := gm{name: fn.Name(), args: args}
		if sig.Variadic() {
			m.alt = args[:sig.Params().Len()-1]
		}
		methods = append(methods, m)
	}
	sort.Slice(methods, func(i, j int) bool { return methods[i].name < methods[j].name })
	var sb strings.Builder
	sb.WriteString("package rueidiscompat\n\nimport (\n\t\"context\"\n\t\"time\"\n)\n\nvar _ = time.Second\n\n")
	_ = imports
	fmt.Fprintf(&sb, "const verifGenPipelineMethods = %d\n\n", len(methods))
	fmt.Fprintf(&sb, "var verifGenPipelineSkipped = %q\n\n", strings.Join(skipped, ","))
	sb.WriteString("func verifGenQueue(p *Pipeline, k int, emptyVariadic bool) (name string, ret Cmder) {\n\tctx := context.Background()\n\tswitch k {\n")
	for k, m := range methods {
		fmt.Fprintf(&sb, "\tcase %d:\n\t\tname = %q\n", k, m.name)
		if m.alt != nil {
			fmt.Fprintf(&sb, "\t\tif emptyVariadic {\n\t\t\tret = p.%s(%s)\n\t\t} else {\n\t\t\tret = p.%s(%s)\n\t\t}\n", m.name, strings.Join(m.alt, ", "), m.name, strings.Join(m.args, ", "))
		} else {
			fmt.Fprintf(&sb, "\t\tret = p.%s(%s)\n", m.name, strings.Join(m.args, ", "))
		}
	}
	sb.WriteString("\t}\n\treturn\n}\n")
	extraOverlay[filepath.Join(dir, "zz_verif_gen_pipeline.go")] = []byte(sb.String())
	return len(methods), nil
}

func genPipelinePath() string { return filepath.Join(repoDir, "rueidiscompat", "zz_verif_gen_pipeline.go") }

func hasBuilderOverlay() bool {
	_, ok := extraOverlay[filepath.Join(repoDir, "internal/cmds", "zz_verif_gen_builders.go")]
	return ok
}
