package main

// Replay gate: a counterexample is turned into an ordinary Go test that runs the same harness
// natively (go test -overlay; harness + rt_native reading the recorded vector) and must hit
// the same failure. Schedule-dependent counterexamples are re-executed deterministically in
// the engine instead (replay_kind "engine").

import (
	"bytes"
	"encoding/json"
	"fmt"
	"os"
	"os/exec"
	"path/filepath"
	"strings"
	"time"
)

type replayFile struct {
	Property  string           `json:"property"`
	Tier      string           `json:"tier"`
	Dir       string           `json:"module_dir"`
	Pkg       string           `json:"package"`
	Params    map[string]int64 `json:"params"`
	Violation *violationRec    `json:"violation"`
}

func goEnv() []string {
	env := os.Environ()
	env = append(env, "GOFLAGS=-mod=mod", "GOPROXY=off", "GOSUMDB=off", "GOTOOLCHAIN=local", "GOWORK=off",
		"PATH=/opt/veriftools/go1.26.8/bin:"+os.Getenv("PATH"))
	return env
}

// pkgRelDir returns the directory of pkg relative to /repo.
func pkgRelDir(pkg string) string {
	rel := strings.TrimPrefix(pkg, "github.com/redis/rueidis")
	return strings.TrimPrefix(rel, "/")
}

func replayNative(rec *replayFile) (kind string, reproduced bool, note string) {
	v := rec.Violation
	if strings.HasPrefix(v.Msg, "HANG") || len(v.Schedule) > 1 {
		ok, n := replayEngine(rec)
		return "engine", ok, n
	}
	if rec.Params["map_order"] != 0 {
		// the counterexample depends on Go's unspecified map iteration order, which a native run
		// cannot be forced to follow: the deterministic engine re-execution is the replay of record
		ok, n := replayEngine(rec)
		return "engine", ok, n + " (depends on map iteration order)"
	}
	if hs := findSpec(rec); hs != nil && len(hs.spec.Overrides) > 0 {
		// the harness runs with function overrides (uninterpreted stubs) that have no native
		// counterpart: the deterministic engine re-execution is the replay of record
		ok, n := replayEngine(rec)
		return "engine", ok, n + " (harness uses stub overrides)"
	}
	ov, err := harnessOverlay(true)
	if err != nil {
		return "native", false, err.Error()
	}
	scratch, err := os.MkdirTemp("", "symgo-replay-")
	if err != nil {
		return "native", false, err.Error()
	}
	defer os.RemoveAll(scratch)
	rel := pkgRelDir(rec.Pkg)
	pkgName := ""
	for target, b := range ov {
		if filepath.Dir(target) == filepath.Join(repoDir, rel) {
			if m := pkgClause.FindSubmatch(b); m != nil {
				pkgName = string(m[1])
			}
		}
	}
	vec, _ := json.Marshal(v.Vector)
	par, _ := json.Marshal(rec.Params)
	test := fmt.Sprintf(`package %s

import "testing"

func TestVerifReplay(t *testing.T) {
	verifLoadVector(%q, %q)
	%s()
	verifReplayDone()
}
`, pkgName, string(vec), string(par), v.Harness)
	ov[filepath.Join(repoDir, rel, "zz_verif_replay_test.go")] = []byte(test)
	// materialise overlay contents
	repl := map[string]string{}
	i := 0
	for target, b := range ov {
		i++
		f := filepath.Join(scratch, fmt.Sprintf("f%d.go", i))
		if err := os.WriteFile(f, b, 0o644); err != nil {
			return "native", false, err.Error()
		}
		repl[target] = f
	}
	ovj, _ := json.Marshal(map[string]any{"Replace": repl})
	ovFile := filepath.Join(scratch, "overlay.json")
	os.WriteFile(ovFile, ovj, 0o644)
	cmd := exec.Command("go", "test", "-vet=off", "-count=1", "-timeout", "120s", "-overlay", ovFile, "-run", "^TestVerifReplay$", ".")
	cmd.Dir = filepath.Join(repoDir, rel)
	cmd.Env = append(goEnv(), "GOCACHE="+filepath.Join(scratch, "gocache"), "GOTMPDIR="+scratch)
	// keep the shared build cache for speed if it is writable
	if gc := os.Getenv("GOCACHE"); gc != "" {
		cmd.Env = append(cmd.Env, "GOCACHE="+gc)
	} else if home, err := os.UserCacheDir(); err == nil {
		cmd.Env = append(cmd.Env, "GOCACHE="+filepath.Join(home, "go-build"))
	}
	var out bytes.Buffer
	cmd.Stdout = &out
	cmd.Stderr = &out
	t0 := time.Now()
	err = cmd.Run()
	txt := out.String()
	dur := time.Since(t0).Round(time.Millisecond)
	switch {
	case strings.Contains(txt, "VERIF-VIOLATION"):
		line := grepLine(txt, "VERIF-VIOLATION")
		return "native", true, fmt.Sprintf("go test reproduced: %s [%v]", line, dur)
	case strings.Contains(txt, "panic:") && strings.HasPrefix(v.Msg, "panic"):
		return "native", true, fmt.Sprintf("go test reproduced: %s [%v]", grepLine(txt, "panic:"), dur)
	case strings.Contains(txt, "VERIF-ASSUME-FAILED"):
		return "native", false, "native run violated a harness assumption: " + grepLine(txt, "VERIF-ASSUME-FAILED")
	case err == nil:
		return "native", false, "native run passed"
	}
	if len(txt) > 600 {
		txt = txt[len(txt)-600:]
	}
	return "native", false, "native run failed differently: " + strings.ReplaceAll(txt, "\n", " | ")
}

func grepLine(txt, pat string) string {
	for _, l := range strings.Split(txt, "\n") {
		if strings.Contains(l, pat) {
			l = strings.TrimSpace(l)
			if len(l) > 300 {
				l = l[:300]
			}
			return l
		}
	}
	return ""
}

// findSpec locates the registered harness spec a replay record belongs to (same name and,
// when several specs share the name, the same parameters).
func findSpec(rec *replayFile) *specRef {
	def, ok := checks[rec.Property]
	if !ok {
		return nil
	}
	var first *specRef
	for _, t := range []string{rec.Tier, "quick", "thorough"} {
		for _, s := range def.specs(t) {
			if s.spec.Name != rec.Violation.Harness {
				continue
			}
			s := s
			if first == nil {
				first = &s
			}
			same := len(s.spec.Params) == len(rec.Params)
			for k, v := range s.spec.Params {
				if rec.Params[k] != v {
					same = false
				}
			}
			if same {
				return &s
			}
		}
	}
	return first
}

// replayEngine re-executes the recorded decision vector deterministically.
func replayEngine(rec *replayFile) (bool, string) {
	def, ok := checks[rec.Property]
	if !ok {
		return false, "unknown property"
	}
	_ = def
	hs := findSpec(rec)
	if hs == nil {
		return false, "harness not registered"
	}
	p, err := loadProgram(hs.dir, []string{hs.spec.Pkg})
	if err != nil {
		return false, err.Error()
	}
	p.overrides = nil
	if len(hs.spec.Overrides) > 0 {
		p.overrides = map[string]*ssaFunc{}
		for from, to := range hs.spec.Overrides {
			if f := p.pkgs[hs.spec.Pkg].Func(to); f != nil {
				p.overrides[from] = f
			}
		}
	}
	spec := *hs.spec
	spec.MaxPaths = 1
	r := exploreFixed(p, &spec, rec.Violation)
	if r != nil && r.out == outViolation && r.viol != nil && r.viol.Sig == rec.Violation.Sig {
		return true, "deterministic re-execution of the recorded schedule/decisions in the engine reproduced the failure (native forcing of the schedule is not attempted)"
	}
	if r == nil {
		return false, "engine replay failed to run"
	}
	return false, "engine replay ended with " + r.out.String() + ": " + r.msg
}

func cmdReplay(args []string) int {
	if len(args) < 1 {
		fmt.Fprintln(os.Stderr, "usage: symgo replay <file>")
		return 2
	}
	b, err := os.ReadFile(args[0])
	if err != nil {
		fmt.Fprintln(os.Stderr, err)
		return 2
	}
	var rec replayFile
	if err := json.Unmarshal(b, &rec); err != nil {
		fmt.Fprintln(os.Stderr, err)
		return 2
	}
	if hs := findSpec(&rec); hs != nil && hs.spec.Gen == "builders" {
		if _, _, err := generateBuilderHarness(); err != nil {
			fmt.Fprintln(os.Stderr, err)
			return 2
		}
	}
	if hs := findSpec(&rec); hs != nil && hs.spec.Gen == "pipeline" {
		if _, err := generatePipelineHarness(); err != nil {
			fmt.Fprintln(os.Stderr, err)
			return 2
		}
	}
	kind, ok, note := replayNative(&rec)
	fmt.Printf("replay kind=%s reproduced=%v: %s\n", kind, ok, note)
	if ok {
		fmt.Printf("VIOLATION property=%s replay=%s\n", rec.Property, args[0])
		return 1
	}
	return 0
}
