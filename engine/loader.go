package main

// Loading: go/packages over /repo's current working tree with an in-memory overlay that adds
// the harness files; SSA is rebuilt on every run. /repo is never written to.

import (
	"bytes"
	"fmt"
	"os"
	"path/filepath"
	"regexp"
	"sort"
	"strings"

	"golang.org/x/tools/go/packages"
	"golang.org/x/tools/go/ssa"
	"golang.org/x/tools/go/ssa/ssautil"
)

type ssaFunc = ssa.Function

var pkgClause = regexp.MustCompile(`(?m)^package\s+(\w+)`)

// harnessOverlay maps /verif/harness/<rel>/*.go onto /repo/<rel>/zz_verif_*.go and adds the
// engine run-time file to every such package directory.
func harnessOverlay(native bool) (map[string][]byte, error) {
	ov := map[string][]byte{}
	root := filepath.Join(verifDir, "harness")
	rtName := "rt_engine.go.txt"
	if native {
		rtName = "rt_native.go.txt"
	}
	rt, err := os.ReadFile(filepath.Join(root, rtName))
	if err != nil {
		return nil, err
	}
	err = filepath.Walk(root, func(path string, info os.FileInfo, err error) error {
		if err != nil || info.IsDir() || !strings.HasSuffix(path, ".go") {
			return err
		}
		rel, _ := filepath.Rel(root, path)
		dir := filepath.Dir(rel)
		if dir == "." {
			dir = ""
		}
		b, err := os.ReadFile(path)
		if err != nil {
			return err
		}
		target := filepath.Join(repoDir, dir, "zz_verif_"+filepath.Base(path))
		ov[target] = b
		if bytes.Contains(b, []byte("//verif:use luasym")) {
			// shared harness source: the Lua interpreter and Redis model
			lua, err := os.ReadFile(filepath.Join(root, "luasym.go.txt"))
			if err != nil {
				return err
			}
			if m := pkgClause.FindSubmatch(b); m != nil {
				ov[filepath.Join(repoDir, dir, "zz_verif_luasym.go")] = []byte(strings.Replace(string(lua), "package PKGNAME", "package "+string(m[1]), 1))
			}
		}
		rtTarget := filepath.Join(repoDir, dir, "zz_verif_rt.go")
		if _, ok := ov[rtTarget]; !ok {
			m := pkgClause.FindSubmatch(b)
			if m == nil {
				return fmt.Errorf("%s: no package clause", path)
			}
			ov[rtTarget] = []byte(strings.Replace(string(rt), "package PKGNAME", "package "+string(m[1]), 1))
		}
		return nil
	})
	for k, v := range extraOverlay {
		ov[k] = v
	}
	return ov, err
}

// loadProgram loads the module at /repo/<modDir> with the harness overlay and builds SSA.
func loadProgram(modDir string, pkgPaths []string) (*program, error) {
	ov, err := harnessOverlay(false)
	if err != nil {
		return nil, err
	}
	dir := filepath.Join(repoDir, modDir)
	env := goEnv()
	cfg := &packages.Config{Mode: packages.LoadAllSyntax, Dir: dir, Overlay: ov, Env: env, Tests: false}
	pkgs, err := packages.Load(cfg, pkgPaths...)
	if err != nil {
		return nil, err
	}
	var errs []string
	packages.Visit(pkgs, nil, func(p *packages.Package) {
		for _, e := range p.Errors {
			errs = append(errs, e.Error())
		}
	})
	if len(errs) > 0 {
		sort.Strings(errs)
		if len(errs) > 8 {
			errs = errs[:8]
		}
		return nil, fmt.Errorf("package errors: %s", strings.Join(errs, "; "))
	}
	prog, _ := ssautil.AllPackages(pkgs, ssa.InstantiateGenerics)
	prog.Build()
	p := &program{prog: prog, pkgs: map[string]*ssa.Package{}}
	for _, sp := range prog.AllPackages() {
		p.pkgs[sp.Pkg.Path()] = sp
	}
	for _, pp := range pkgPaths {
		if p.pkgs[pp] == nil {
			return nil, fmt.Errorf("package %s not loaded", pp)
		}
	}
	return p, nil
}

// allowInit says whether a package initialiser is executed by the engine.
func allowInit(path string) bool {
	if strings.HasPrefix(path, "github.com/redis/rueidis") {
		return true
	}
	switch path {
	case "errors", "io", "context", "time", "strconv", "bufio", "bytes", "strings", "math", "sync",
		"container/list", "sort", "slices", "net/url", "unicode/utf8", "maps", "iter", "cmp",
		"encoding/binary", "encoding/hex", "sync/atomic", "internal/oserror", "math/bits", "io/fs", "path",
		"internal/sync", "net/netip", "internal/bytealg", "internal/stringslite", "internal/itoa", "hash", "hash/crc32":
		return true
	}
	return false
}
