package main

func init() {
	checks["C46"] = &checkDef{
		Level:       levelOther,
		Explanation: "Bounded symbolic execution of the real Scanner.scan/Iter/Iter2/Err (helper.go, range-over-func SSA) with a stub page source that serves up to P pages of 0..E elements, returns a symbolic uint64 cursor per page (any value, 0 included), fails at a chosen page, and a consumer that stops after a symbolic number of yields. Oracle: the first request uses cursor 0, each later request uses exactly the cursor the previous page returned and none follows a 0 cursor, a stop or a failure; the yielded sequence is the concatenation of the pages' elements in order (consecutive pairs for Iter2, odd tail dropped) cut at the stop; Err() is nil after a complete scan and the page's error after a failing page.",
		Assumptions: []string{"the last modelled page returns cursor 0 (bound on the number of pages)"},
		Outside:     []string{"scans of more than P pages / E elements per page (the loop is uniform in the page index)"},
		Bounds:      map[string]any{"quick": "P = 3 pages, E = 3 elements", "thorough": "P = 4 pages, E = 4 elements"},
		specs: func(tier string) []specRef {
			pp := P{"max_pages": q(tier, int64(3), 4), "max_elems": q(tier, int64(3), 4)}
			return []specRef{
				hsx(rootPkg, "VerifC46_iter", pp, 2000000, 900, "complete", "failed", "stopped"),
				hsx(rootPkg, "VerifC46_iter2", pp, 2000000, 900, "complete", "failed", "stopped"),
			}
		},
	}
}
