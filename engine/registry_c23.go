package main

func init() {
	checks["C23"] = &checkDef{
		Level:       levelMC,
		Explanation: "Real sentinelClient._refresh, listWatch, _switchTarget, switchTargetRetry, pick and Do over stub connections: two sentinels (the first reports master m1 or m2, the second m2), data nodes whose dial may fail and whose ROLE answer is master, slave or an error and may change between two calls; the Pub/Sub callback that listWatch passes to Receive is captured and invoked with a +switch-master event naming m2. Oracle after the refresh and after the event: the published master connection belongs to the published master address, that address is one a sentinel reported (or the event announced), a node that answered ROLE with a wrong role or failed to answer is closed and is never left published and open, a successful refresh publishes a master, the master address changes only to the announced new master, and subsequent primary traffic goes to the published master connection (which, if open, answered ROLE as master).",
		Assumptions: []string{"sentinel replies are well-formed (short ROLE arrays or short event payloads are not modelled)", "delay bound 0; the retrying refresh goroutine started after a failed switch is left to run when idle"},
		Trusted:     []string{"stub connections and the captured Receive callback (harness code)"},
		Outside:     []string{"replica selection (pickReplica, +slave/+sdown/+reboot events), SendToReplicas mode with two parallel _switchTarget calls", "more than two sentinels / data nodes"},
		Bounds:      map[string]any{"quick": "2 sentinels × reported master × role sequences × dial failure; one +switch-master event", "thorough": "delay bound 1"},
		specs: func(tier string) []specRef {
			return []specRef{hsd(rootPkg, "VerifC23_sentinel", nil, q(tier, 0, 1), 3000000, 3000, "refreshed", "refreshfailed", "switched", "done"),
				// SendToReplicas: master and replica are switched concurrently, then the replica is promoted
				hsd(rootPkg, "VerifC23_replicas", nil, q(tier, 1, 2), 3000000, 3000, "refreshed", "switched")}
		},
	}
}
