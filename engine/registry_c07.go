package main

func init() {
	checks["C07"] = &checkDef{
		Level:       levelOther,
		Explanation: "Symbolic-time execution of the real lru and NewSimpleCacheAdapter stores (Flight → Update → Flight) and of RedisMessage.setExpireAt/getExpireAt/relativePTTL/CacheTTL/CachePTTL/CachePXAT. All instants are symbolic Unix milliseconds: request start t0, client TTL of any sign, reply arrival t1 ≥ t0, server PTTL over the whole int range (so -2, -1, 0 and positive values are all included), query time t2 ≥ t1, static-TTL flag symbolic. time.Time values with a symbolic instant are an engine value kind whose Add/Sub/UnixMilli/Before/After/Now are intrinsics (linear bit-vector arithmetic on milliseconds). Batched lookups (lru.Flights, VerifC07_batch): 2..3 commands with independent symbolic client TTLs, each already cached, already in flight or missed: every missed command is put in flight with exactly its own TTL. Oracle: committed expiry = min(t0+ttl, t1+pttl if pttl ≥ 0 and not static); the second Flight is a hit exactly when t2 < expiry; CachePXAT = expiry, CachePTTL = expiry - t2, CacheTTL = ceil(CachePTTL/1000) (checked for remaining times below 2^20 ms).",
		Assumptions: []string{"all durations are whole milliseconds; |values| < 2^40 ms; 0 < t0+ttl (the 7-byte expiry field; 0 is the no-expiry sentinel)", "the reader's commit step (cp.setExpireAt(now.Add(pttl ms).UnixMilli()) when pttl ≥ 0, then CacheStore.Update) is transcribed from pipe.go into the harness; the real reader is exercised under C06"},
		Trusted:     []string{"symbolic time.Time intrinsics (engine/symtime.go)"},
		Outside:     []string{"sub-millisecond TTLs; expiries beyond 2^55 ms", "the MGET commit branch (same three statements per element)", "batches of more than 3 commands in lru.Flights"},
		Bounds:      map[string]any{"quick": "one entry, one update, one later read; all times symbolic", "thorough": "same"},
		specs: func(tier string) []specRef {
			return []specRef{
				hsx(rootPkg, "VerifC07_lru", nil, 100000, 1800, "clientttl", "serverttl", "hit", "expired"),
				hsx(rootPkg, "VerifC07_adapter", nil, 100000, 1800, "clientttl", "serverttl", "hit", "expired"),
				hsx(rootPkg, "VerifC07_batch", nil, 100000, 1800, "missed"),
			}
		},
	}
}
